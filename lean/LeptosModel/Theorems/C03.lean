import LeptosModel.Proofs.ViewFinal
import LeptosModel.Proofs.ViewSer2
import LeptosModel.Proofs.ViewAttrs3
import LeptosModel.Proofs.ViewSpread
/-!
# C03 — updating a view in place gives the same DOM as rendering it fresh

Model: `Model/Dom.lean` (native DOM), `Model/View.lean` (views, retained states, `build`, `rebuild`,
`mount`, `unmount`, `insert_before_this`, `render`).  Proof: `Proofs/View*.lean`; the core is
`rebuild_spec` (`Proofs/ViewRebuild.lean`): by structural induction on the new view, mutually with
tuples and the `Vec` zip, `rebuild b` turns a mounted representation of `a` into a mounted
representation of `b` **in the same place**, allocates only fresh ids for new nodes and changes no
node outside the state (separation-style invariant `Inv` / frame `Res`).

## What is proved (all view trees of the fragment, unbounded depth and width, any siblings)

* **Structural combinators: complete.**  text, `()`, elements (children, void elements), tuples,
  `Option`, `Either` / `EitherOfN` (incl. branch switches), `Vec` (grow, shrink, fill from empty, clear),
  **and `AnyView`** (same type: rebuild with the erased flag; other type: replaced in position).
  = stages 1 and 3 of DESIGN §7 C03.
* **Attributes, stage 1** — `Attr<K, String>` items with pairwise distinct keys (`StaticAttrs`,
  `View.inFragment`, on types `Ty.inStage1`): conclusion with *exact* equality of the serialisation
  (`C03_build_mount`, `C03_rebuild_eq_fresh`, `C03_update_eq_fresh`, `C03_rebuild_seq`, …).
* **Attributes, stage 2a** — `Attr<K, String | Option<String> | bool>`, one whole-value
  `Class<String | Option<String>>` and one `Style<String>` per element, every key once (`KVAttrs`,
  `View.inFragment2`): `C03_build_mount_attrvalues`, `C03_rebuild_eq_fresh_attrvalues`,
  `C03_rebuild_seq_attrvalues`; the conclusion compares every element's attributes **as a map**
  (`Tree.simList AttrsEq`), because `None` / `false` removes an attribute and a later `Some` / `true`
  appends it at the end of the list.
* **Attributes, stage 2b** — item-wise `class` / `style`: `class:name=bool` toggles,
  `style:name=value` and `style:name=Option<value>` properties, next to named attributes and
  whole-value `class` / `style` strings, any number of items per element, as long as the
  *footprints* of the items of one element (named key, whole `class`, one class token, whole
  `style`, one normalised style property) are pairwise disjoint — within the old value, within the
  new value, and across the two for every element the rebuild retains (`ItemAttrs`, `ItemPair`,
  decidable: `View.inFragment3`, `View.pairItems`).  Toggle names are valid tokens, property names
  / values cannot break out of their declaration (`itemOk`).  Renames (toggle name, property name,
  also to a name that differs in case only), blank property values (= removal) and optional
  properties are covered.  `C03_build_mount_items`, `C03_rebuild_eq_fresh_items`,
  `C03_rebuild_seq_items`; the conclusion compares every element on **cells** (`Tree.simList
  AttrsSim`: named attributes as a map, `class` as a token set, `style` as a declaration map — the
  oracle's normal form).  Underneath: the string round trips `classTokens_join` (`classList`
  add / remove re-joins the token list), `styleDecls_styleText` / `styleDecls_ok` (`style.setProperty`
  / `removeProperty` re-serialise the declaration list; `setCssProperty_attrs`,
  `removeCssProperty_attrs`), the per-item cell semantics `buildAttr_cells` / `rebuildAttr_cells`
  (`Proofs/ViewItems.lean`) and the list induction `buildAttrs_cells` / `rebuildAttrs_cells`
  (`Proofs/ViewAttrs3.lean`).  The hypothesis on retained elements is exactly what the core needs:
  `rebuild_core` asks `AttrsRebuild R` only for *pairs* of old / new items of retained elements
  (`PairEl`), `rebuild_spec` is the special case of one predicate on both.
* **Types** (widened after seed round 2): text children of every provenance are one model type
  (`String`, `&'static str`, `Cow<'static, str>`, `Arc<str>`: a rebuild may depend on contents only);
  arrays `[T; N]` are `Ty.arr n t` with tuple values, incl. the node-less `[T; 0]` in any tuple
  position (`insert_before_this` asks every member in turn).  `Ty.wf` requires the alternatives of
  `Option` / `Either` / `AnyView` to be **nodeful** (`Ty.nodeful`: at least one DOM node in every
  value, `roots_ne_nil`), because the code loses its position otherwise: F-C03-6
  `nodeless-old-branch` (`C03_nodeless_old_branch_witness*`, hooks/c03_nodeless_old_branch_demo.rs).
* **Attribute value forms, erasure, spreading** (widened after seed round 3): the Rust string type
  of a value and the `into_cloneable[_owned]()` conversions are transparent (one string type in the
  model); `Style<Option<_>>` is `.ostr "style"` (stage 2a); `view.add_any_attr(a)` is `View.spread a`
  and keeps views well typed (`C03_spread_typed`, `Proofs/ViewSpread.lean`), so the theorems apply
  to spread views.  Toggle names that are not one class token are outside `itemOk` (stage 2b) and a
  known class of the correspondence run (F-C03-7 `invalid-class-token`).
* The proof is parametric in the attribute fragment and in the relation on attribute lists:
  `rebuild_core` takes any `P`, `Q` with `AttrsFresh R` on the new elements / `AttrsRebuild R` on the
  retained pairs.

## What is OPEN / refuted

* The statement over *all* attribute shapes is **false of the code**:
  `C03_rebuild_eq_fresh_stmt` is the full statement (executable form),
  `C03_rebuild_eq_fresh_stmt_false` refutes it by a kernel-checked witness (F-C03-1); F-C03-2 and
  F-C03-5 are further remaining classes (props/C03.known; class predicates `classOverwrite`,
  `styleOverwrite`, `dupItem`, `dupItemPair` in `Model/View.lean`).  These are precisely the shapes
  with overlapping footprints that `inFragment3` / `pairItems` exclude (examples at the end of the
  file); they are covered by the correspondence run only.  F-C03-1 (AnyView part), F-C03-3 and
  F-C03-4 are repaired in /repo: `*_fixed` theorems, and `*_witness_old` regression theorems about
  the pre-repair `rebuildAttrOld`.
* Not covered by stage 2b: toggle names that are not a single token, style property names / values
  containing `;` (names also `:`), non-ASCII whitespace (assumption of the string model).
* `StaticVec` has no constructor in the shared `View` / `State`: the correspondence driver composes
  the model's `unmount` / `build` / `mount` for it (top level as the last child, or the one child of a
  top-level element).  That composition is proved equal to a fresh render for a region at the END of
  its parent: `C03_staticvec_rebuild` (stage 1), `C03_staticvec_rebuild_items` (stage 2b),
  `C03_staticvec_rebuild_child` (the children of an element, via `StateOk.elemChild`),
  `C03_staticvec_rebuild_elem` (the whole element in ITS parent, between any siblings:
  `staticvec_child_spec` re-wraps the element with `Res.nest`), resting on
  `unmount_ready` (after `unmount` the parent is still an element with children `pre ++ post`).  Raw-text elements (`script`, `style`, `textarea`,
  `noscript`) are ordinary tags: every theorem covers them.
* Stage 4 (`keyed`) is not in the Lean `View` type (modelled over an abstract child list in
  `Model/Keyed.lean`, C11; adding a constructor would break the exhaustive matches of the C05
  files that import `Model/View.lean`); correspondence only.  `StaticVec` / `Fragment`: not modelled.
-/
namespace Leptos.View
open Leptos.Dom

/-! ## the proved fragment (decidable) -/

mutual
/-- every element of the view has only static string attributes, each key once -/
def View.inFragment : View → Bool
  | .elem _ as c => decide (StaticAttrs as) && View.inFragment c
  | .tuple vs => View.inFragmentList vs
  | .osome v => View.inFragment v
  | .either _ _ v => View.inFragment v
  | .vec vs => View.inFragmentList vs
  | .any _ v => View.inFragment v
  | _ => true
def View.inFragmentList : List View → Bool
  | [] => true
  | v :: vs => View.inFragment v && View.inFragmentList vs
end

mutual
theorem inFragment_allEl : ∀ (v : View), v.inFragment = true → AllEl StaticAttrs v
  | .text _, _ => by simp [AllEl]
  | .unit, _ => by simp [AllEl]
  | .onone, _ => by simp [AllEl]
  | .elem _ as c, h => by
    simp [View.inFragment] at h; simp only [AllEl]; exact ⟨h.1, inFragment_allEl c h.2⟩
  | .tuple vs, h => by
    simp only [View.inFragment] at h; simp only [AllEl]; exact inFragmentList_allEl vs h
  | .osome v, h => by
    simp only [View.inFragment] at h; simp only [AllEl]; exact inFragment_allEl v h
  | .either _ _ v, h => by
    simp only [View.inFragment] at h; simp only [AllEl]; exact inFragment_allEl v h
  | .vec vs, h => by
    simp only [View.inFragment] at h; simp only [AllEl]; exact inFragmentList_allEl vs h
  | .any _ v, h => by
    simp only [View.inFragment] at h; simp only [AllEl]; exact inFragment_allEl v h
theorem inFragmentList_allEl : ∀ (vs : List View), View.inFragmentList vs = true →
    AllElList StaticAttrs vs
  | [], _ => by simp [AllElList]
  | v :: vs, h => by
    simp [View.inFragmentList] at h; simp only [AllElList]
    exact ⟨inFragment_allEl v h.1, inFragmentList_allEl vs h.2⟩
end

def AttrTy.isStatic : AttrTy → Bool
  | .str _ => true
  | _ => false

mutual
/-- **stage 1** as a predicate on the view *type*: text / unit / elements with static string
attributes / tuples / `Option` / `Either` / `Vec` (excluded: `AnyView`, whose content has no static
type, and every other attribute kind) -/
def Ty.inStage1 : Ty → Bool
  | .text => true
  | .unit => true
  | .elem _ as c => as.all AttrTy.isStatic && Ty.inStage1 c
  | .tuple ts => Ty.inStage1List ts
  | .opt t => Ty.inStage1 t
  | .either ts => Ty.inStage1List ts
  | .vec t => Ty.inStage1 t
  | .any => false
  | .arr _ t => Ty.inStage1 t
def Ty.inStage1List : List Ty → Bool
  | [] => true
  | t :: ts => Ty.inStage1 t && Ty.inStage1List ts
end

theorem static_of_types : ∀ (as : List AttrVal) (ats : List AttrTy),
    as.map AttrVal.ty = ats → ats.all AttrTy.isStatic = true →
    allStr as = true ∧ strNames as = namedKeys ats
  | [], ats, h, _ => by subst h; simp [allStr, strNames, namedKeys]
  | a :: as, ats, h, hs => by
    cases ats with
    | nil => simp at h
    | cons t ts =>
      simp at h hs
      obtain ⟨h1, h2⟩ := h
      have ih := static_of_types as ts h2 (by simpa using hs.2)
      cases a <;> simp [AttrVal.ty] at h1 <;> subst h1 <;> simp [AttrTy.isStatic] at hs
      simp [allStr, strNames, namedKeys, ih.1, ih.2]

theorem inStage1List_get : ∀ (ts : List Ty) (i : Nat) (t : Ty), Ty.inStage1List ts = true →
    ts[i]? = some t → t.inStage1 = true
  | [], i, t, _, h => by simp at h
  | t0 :: ts, 0, t, hw, h => by
    simp at h; subst h; simp [Ty.inStage1List] at hw; exact hw.1
  | t0 :: ts, i + 1, t, hw, h => by
    simp at h; simp [Ty.inStage1List] at hw; exact inStage1List_get ts i t hw.2 h

mutual
/-- a value of a stage-1 type lies in the proved fragment -/
theorem inStage1_inFragment : ∀ (v : View) (ty : Ty), ty.wf = true → ty.inStage1 = true →
    hasTy v ty = true → v.inFragment = true
  | .text _, _, _, _, _ => by simp [View.inFragment]
  | .unit, _, _, _, _ => by simp [View.inFragment]
  | .onone, _, _, _, _ => by simp [View.inFragment]
  | .elem tag as c, ty, hw, hs, ht => by
    cases ty <;> simp [hasTy] at ht
    simp [Ty.wf] at hw; simp [Ty.inStage1] at hs
    obtain ⟨h1, h2⟩ := static_of_types as _ ht.1.2 (by simpa using hs.1)
    simp only [View.inFragment, Bool.and_eq_true, decide_eq_true_eq]
    exact ⟨⟨h1, by rw [h2]; exact hw.1.1⟩, inStage1_inFragment c _ hw.1.2 hs.2 ht.2⟩
  | .tuple vs, ty, hw, hs, ht => by
    cases ty <;> simp [hasTy] at ht
    · simp [Ty.wf] at hw; simp only [Ty.inStage1] at hs
      simp only [View.inFragment]
      exact inStage1List_inFragment vs _ hw.2 hs ht
    · simp only [View.inFragment]
      exact inStage1All_inFragment vs _ (by simpa [Ty.wf] using hw) (by simpa [Ty.inStage1] using hs) ht.2
  | .osome v, ty, hw, hs, ht => by
    cases ty <;> simp [hasTy] at ht
    simp only [View.inFragment]
    simp [Ty.wf] at hw
    exact inStage1_inFragment v _ hw.1 (by simpa [Ty.inStage1] using hs) ht
  | .either n i v, ty, hw, hs, ht => by
    cases ty <;> simp [hasTy] at ht
    rename_i ts
    simp [Ty.wf] at hw; simp only [Ty.inStage1] at hs
    simp only [View.inFragment]
    cases hi : ts[i]? with
    | none => simp [hi] at ht
    | some t =>
      simp [hi] at ht
      exact inStage1_inFragment v t (wfList_get ts i t hw.1.2 hi) (inStage1List_get ts i t hs hi) ht.2
  | .vec vs, ty, hw, hs, ht => by
    cases ty <;> simp [hasTy] at ht
    simp only [View.inFragment]
    exact inStage1All_inFragment vs _ (by simpa [Ty.wf] using hw) (by simpa [Ty.inStage1] using hs) ht
  | .any _ _, ty, _, hs, ht => by
    cases ty <;> simp [hasTy] at ht
    simp [Ty.inStage1] at hs
theorem inStage1List_inFragment : ∀ (vs : List View) (ts : List Ty), Ty.wfList ts = true →
    Ty.inStage1List ts = true → hasTyList vs ts = true → View.inFragmentList vs = true
  | [], _, _, _, _ => by simp [View.inFragmentList]
  | v :: vs, ts, hw, hs, ht => by
    cases ts with
    | nil => simp [hasTyList] at ht
    | cons t ts =>
      simp [hasTyList] at ht; simp [Ty.wfList] at hw; simp [Ty.inStage1List] at hs
      simp only [View.inFragmentList, Bool.and_eq_true]
      exact ⟨inStage1_inFragment v t hw.1 hs.1 ht.1, inStage1List_inFragment vs ts hw.2 hs.2 ht.2⟩
theorem inStage1All_inFragment : ∀ (vs : List View) (t : Ty), t.wf = true →
    t.inStage1 = true → hasTyAll vs t = true → View.inFragmentList vs = true
  | [], _, _, _, _ => by simp [View.inFragmentList]
  | v :: vs, t, hw, hs, ht => by
    simp [hasTyAll] at ht
    simp only [View.inFragmentList, Bool.and_eq_true]
    exact ⟨inStage1_inFragment v t hw hs ht.1, inStage1All_inFragment vs t hw hs ht.2⟩
end

/-! ## the theorems -/

/-- **C03_build_mount.**  Building `v` and mounting it before the first `post` sibling of a parent
whose children are `pre ++ post` gives `StateOk`, leaves every older node but the parent alone,
and the parent then serialises to `pre ++ render v ++ post`. -/
theorem C03_build_mount (v : View) (d : Dom) (p : Id) (pre post : List Id) (rp : NodeRec)
    (n0 : Nat) (preT postT : List Tree)
    (hv : v.inFragment = true)
    (hp : d.get? p = some rp) (hpe : rp.kind.isElem = true) (hk : rp.kids = pre ++ post)
    (hplt : p < d.next) (hsl : ∀ x, x ∈ pre ++ post → x < d.next)
    (hanchor : Anchor d p post.head? pre post)
    (hs : SiblingsOk d [] p pre post n0 preT postT) :
    StateOk Eq (mount (build v d).2 (build v d).1 p post.head?) v (build v d).2 p pre post ∧
    SiblingsOk (mount (build v d).2 (build v d).1 p post.head?) (owned (build v d).2) p pre post
      n0 preT postT ∧
    (∀ m, max n0 v.depth ≤ m →
      serListN m (mount (build v d).2 (build v d).1 p post.head?)
        ((mount (build v d).2 (build v d).1 p post.head?).kidsOf p) =
      some (preT ++ render v ++ postT)) := by
  obtain ⟨hok, hle, hfr, hge⟩ := build_mount_spec v d p pre post rp
    (AllEl.mono AttrsFresh_static v (inFragment_allEl v hv)) hp hpe hk hplt hsl hanchor
  have hs' := hs.step hle (fun x hx _ hxp => hfr x hx hxp) (fun x hx => Or.inr (hge x hx))
  exact ⟨hok, hs', hok.ser hs'⟩

/-- **C03_rebuild_eq_fresh** (stages 1 + 3: every structural combinator incl. `AnyView`, static
string attributes).  For two values `a`, `b` of one view type, rebuilding a mounted state of `a`
with `b` keeps `StateOk` (now for `b`), and the parent serialises to `pre ++ render b ++ post` —
by `C03_build_mount` exactly what building and mounting `b` from scratch between the same siblings
gives — for every `pre`, `post`. -/
theorem C03_rebuild_eq_fresh (a b : View) (ty : Ty) (st : State) (d : Dom) (p : Id)
    (pre post : List Id) (n0 : Nat) (preT postT : List Tree)
    (hta : HasTy a ty) (htb : HasTy b ty)
    (ha : a.inFragment = true) (hb : b.inFragment = true)
    (hok : StateOk Eq d a st p pre post) (hs : SiblingsOk d (owned st) p pre post n0 preT postT) :
    StateOk Eq (rebuild false b st d).1 b (rebuild false b st d).2 p pre post ∧
    SiblingsOk (rebuild false b st d).1 (owned (rebuild false b st d).2) p pre post n0 preT postT ∧
    (∀ m, max n0 b.depth ≤ m →
      serListN m (rebuild false b st d).1 ((rebuild false b st d).1.kidsOf p) =
      some (preT ++ render b ++ postT)) := by
  obtain ⟨h1, h2⟩ := rebuild_spec StaticAttrs AttrsFresh_static
    (fun as bs x y z => AttrsRebuild_static as bs x y z) b a ty st false d p pre post
    hta.1 hta.2 htb.2 (inFragment_allEl a ha) (inFragment_allEl b hb) hok.rep hok.inv
  have hok' : StateOk Eq _ b _ p pre post := ⟨h1, h2.inv⟩
  have hs' := hs.step h2.next_le h2.frame h2.own
  exact ⟨hok', hs', hok'.ser hs'⟩

/-- the same, with the fragment given as a decidable predicate on the type (stage 1) -/
theorem C03_rebuild_eq_fresh_stage1 (a b : View) (ty : Ty) (st : State) (d : Dom) (p : Id)
    (pre post : List Id) (n0 : Nat) (preT postT : List Tree)
    (hta : HasTy a ty) (htb : HasTy b ty) (hstage : ty.inStage1 = true)
    (hok : StateOk Eq d a st p pre post) (hs : SiblingsOk d (owned st) p pre post n0 preT postT) :
    ∀ m, max n0 b.depth ≤ m →
      serListN m (rebuild false b st d).1 ((rebuild false b st d).1.kidsOf p) =
      some (preT ++ render b ++ postT) :=
  (C03_rebuild_eq_fresh a b ty st d p pre post n0 preT postT hta htb
    (inStage1_inFragment a ty hta.1 hstage hta.2) (inStage1_inFragment b ty htb.1 hstage htb.2)
    hok hs).2.2

/-- **End to end**: from one initial DOM, `build a; mount; rebuild b` and `build b; mount` leave the
parent with the same serialisation. -/
theorem C03_update_eq_fresh (a b : View) (ty : Ty) (d : Dom) (p : Id) (pre post : List Id)
    (rp : NodeRec) (n0 : Nat) (preT postT : List Tree)
    (hta : HasTy a ty) (htb : HasTy b ty)
    (ha : a.inFragment = true) (hb : b.inFragment = true)
    (hp : d.get? p = some rp) (hpe : rp.kind.isElem = true) (hk : rp.kids = pre ++ post)
    (hplt : p < d.next) (hsl : ∀ x, x ∈ pre ++ post → x < d.next)
    (hanchor : Anchor d p post.head? pre post)
    (hs : SiblingsOk d [] p pre post n0 preT postT) (m : Nat) (hm : max n0 b.depth ≤ m) :
    let d1 := mount (build a d).2 (build a d).1 p post.head?
    let d2 := (rebuild false b (build a d).2 d1).1
    let e1 := mount (build b d).2 (build b d).1 p post.head?
    serListN m d2 (d2.kidsOf p) = serListN m e1 (e1.kidsOf p) := by
  intro d1 d2 e1
  obtain ⟨hok1, hs1, _⟩ := C03_build_mount a d p pre post rp n0 preT postT ha hp hpe hk hplt hsl
    hanchor hs
  obtain ⟨_, _, h2⟩ := C03_rebuild_eq_fresh a b ty _ d1 p pre post n0 preT postT hta htb ha hb
    hok1 hs1
  obtain ⟨_, _, h3⟩ := C03_build_mount b d p pre post rp n0 preT postT hb hp hpe hk hplt hsl
    hanchor hs
  rw [h2 m hm, h3 m hm]

/-- a sequence of rebuilds -/
def rebuildAll : List View → State → Dom → Dom × State
  | [], st, d => (d, st)
  | b :: bs, st, d => rebuildAll bs (rebuild false b st d).2 (rebuild false b st d).1

def lastView (a : View) : List View → View
  | [] => a
  | b :: bs => lastView b bs

def allInFragment (ty : Ty) : List View → Prop
  | [] => True
  | b :: bs => HasTy b ty ∧ b.inFragment = true ∧ allInFragment ty bs

/-- **C03_rebuild_seq.**  `StateOk` is an invariant: after any list of rebuilds with values of the
type, the parent serialises to the fresh render of the last value. -/
theorem C03_rebuild_seq (ty : Ty) (p : Id) (pre post : List Id) (n0 : Nat) (preT postT : List Tree) :
    ∀ (bs : List View) (a : View) (st : State) (d : Dom),
    HasTy a ty → a.inFragment = true → allInFragment ty bs →
    StateOk Eq d a st p pre post → SiblingsOk d (owned st) p pre post n0 preT postT →
    StateOk Eq (rebuildAll bs st d).1 (lastView a bs) (rebuildAll bs st d).2 p pre post ∧
    (∀ m, max n0 (lastView a bs).depth ≤ m →
      serListN m (rebuildAll bs st d).1 ((rebuildAll bs st d).1.kidsOf p) =
      some (preT ++ render (lastView a bs) ++ postT))
  | [], a, st, d, _, _, _, hok, hs => ⟨hok, hok.ser hs⟩
  | b :: bs, a, st, d, hta, ha, hbs, hok, hs => by
    obtain ⟨htb, hb, hrest⟩ := hbs
    obtain ⟨hok', hs', _⟩ := C03_rebuild_eq_fresh a b ty st d p pre post n0 preT postT hta htb ha hb
      hok hs
    exact C03_rebuild_seq ty p pre post n0 preT postT bs b _ _ htb hb hrest hok' hs'

/-- **C03_unmount_exact.**  `unmount` detaches exactly the root nodes of the state: the parent's
children are `pre ++ post` again (serialising as before), and no other node changes.  For the
states of every stage (`R` = `Eq`, `AttrsEq`, `AttrsSim`), i.e. also after any sequence of
rebuilds in the item fragment. -/
theorem C03_unmount_exact {R : List (String × String) → List (String × String) → Prop}
    (v : View) (st : State) (d : Dom) (p : Id) (pre post : List Id)
    (n0 : Nat) (preT postT : List Tree)
    (hok : StateOk R d v st p pre post) (hs : SiblingsOk d (owned st) p pre post n0 preT postT) :
    (unmount st d).kidsOf p = pre ++ post ∧
    (∀ x, x ≠ p → x ∉ st.roots → (unmount st d).get? x = d.get? x) ∧
    (∀ m, n0 ≤ m → serListN m (unmount st d) ((unmount st d).kidsOf p) = some (preT ++ postT)) := by
  obtain ⟨⟨rp', hp', hk'⟩, hoth, hnx⟩ := unmount_spec v st d p pre post hok
  have hkids : (unmount st d).kidsOf p = pre ++ post := by simp [Dom.kidsOf, hp', hk']
  refine ⟨hkids, hoth, ?_⟩
  intro m hm
  have hs' : SiblingsOk (unmount st d) (owned st) p pre post n0 preT postT :=
    hs.step (by rw [hnx]; exact Nat.le_refl _)
      (fun x _ hxo hxp => hoth x hxp (fun hr => hxo (hok.inv.sub x hr))) (fun x hx => Or.inl hx)
  rw [hkids]
  exact serListN_append _ _ _ _ _ _ (serListN_mono_le n0 m _ pre preT hs'.hpre hm)
    (serListN_mono_le n0 m _ post postT hs'.hpost hm)

/-- **C03_any_type_change.**  An `AnyView` rebuilt with a value of another type is replaced in
position: the new state consists of fresh nodes only (nothing of the old view is retained), sits
between the same siblings, and the parent serialises to `pre ++ render vb ++ post`. -/
theorem C03_any_type_change (tya tyb : Ty) (va vb : View) (old : State) (d : Dom) (p : Id)
    (pre post : List Id) (n0 : Nat) (preT postT : List Tree)
    (hne : Ty.beq tyb tya = false)
    (hta : HasTy (.any tya va) .any) (hb : vb.inFragment = true)
    (hok : StateOk Eq d (.any tya va) (.any tya old) p pre post)
    (hs : SiblingsOk d (owned (.any tya old)) p pre post n0 preT postT) :
    StateOk Eq (rebuild false (.any tyb vb) (.any tya old) d).1 (.any tyb vb)
      (rebuild false (.any tyb vb) (.any tya old) d).2 p pre post ∧
    (∀ x, x ∈ owned (rebuild false (.any tyb vb) (.any tya old) d).2 → d.next ≤ x) ∧
    (∀ m, max n0 vb.depth ≤ m →
      serListN m (rebuild false (.any tyb vb) (.any tya old) d).1
        ((rebuild false (.any tyb vb) (.any tya old) d).1.kidsOf p) =
      some (preT ++ render vb ++ postT)) := by
  have hrep := hok.rep
  simp only [Rep] at hrep
  have hty : (tya.wf = true ∧ tya.nodeful = true) ∧ hasTy va tya = true := by
    simpa [HasTy, hasTy] using hta.2
  have hroots := roots_ne_nil va tya old (some p) hty.1.1 hty.1.2 hty.2 hrep.2
  obtain ⟨h1, h2⟩ := replace_spec va vb old d p pre post hrep.2
    (by simpa [State.roots, owned] using hok.inv) hroots
    (AllEl.mono AttrsFresh_static vb (inFragment_allEl vb hb))
  have hB := build_spec vb d (AllEl.mono AttrsFresh_static vb (inFragment_allEl vb hb))
  rw [rebuild_any]
  simp only [hne, Bool.false_eq_true, if_false]
  have hok' : StateOk Eq (replaceState old (build vb d).2 (build vb d).1) (.any tyb vb)
      (.any tyb (build vb d).2) p pre post :=
    ⟨by simp only [Rep]; exact ⟨trivial, h1⟩, by simpa [State.roots, owned] using h2.inv⟩
  have hs' : SiblingsOk (replaceState old (build vb d).2 (build vb d).1)
      (owned (State.any tyb (build vb d).2)) p pre post n0 preT postT :=
    hs.step h2.next_le (by simpa [owned] using h2.frame) (by simpa [owned] using h2.own)
  refine ⟨hok', ?_, ?_⟩
  · intro x hx; exact (hB.range x (by simpa [owned] using hx)).1
  · simpa [View.depth, render] using hok'.ser hs'

/-! ## stage 2a: `String` / `Option<String>` / `bool` attribute values, one whole-value `class` /
`style` string — attributes compared as a map (`AttrsEq`: `None`/`false` removes an attribute, a later
`Some`/`true` appends it, so the *order* of the attribute list may differ from a fresh render) -/

mutual
/-- every element of the view has only `Attr<K, String | Option<String> | bool>` items and at most
one `Class<String>` and one `Style<String>`, every attribute key once -/
def View.inFragment2 : View → Bool
  | .elem _ as c => decide (KVAttrs as) && View.inFragment2 c
  | .tuple vs => View.inFragment2List vs
  | .osome v => View.inFragment2 v
  | .either _ _ v => View.inFragment2 v
  | .vec vs => View.inFragment2List vs
  | .any _ v => View.inFragment2 v
  | _ => true
def View.inFragment2List : List View → Bool
  | [] => true
  | v :: vs => View.inFragment2 v && View.inFragment2List vs
end

mutual
theorem inFragment2_allEl : ∀ (v : View), v.inFragment2 = true → AllEl KVAttrs v
  | .text _, _ => by simp [AllEl]
  | .unit, _ => by simp [AllEl]
  | .onone, _ => by simp [AllEl]
  | .elem _ as c, h => by
    simp [View.inFragment2] at h; simp only [AllEl]; exact ⟨h.1, inFragment2_allEl c h.2⟩
  | .tuple vs, h => by
    simp only [View.inFragment2] at h; simp only [AllEl]; exact inFragment2List_allEl vs h
  | .osome v, h => by
    simp only [View.inFragment2] at h; simp only [AllEl]; exact inFragment2_allEl v h
  | .either _ _ v, h => by
    simp only [View.inFragment2] at h; simp only [AllEl]; exact inFragment2_allEl v h
  | .vec vs, h => by
    simp only [View.inFragment2] at h; simp only [AllEl]; exact inFragment2List_allEl vs h
  | .any _ v, h => by
    simp only [View.inFragment2] at h; simp only [AllEl]; exact inFragment2_allEl v h
theorem inFragment2List_allEl : ∀ (vs : List View), View.inFragment2List vs = true →
    AllElList KVAttrs vs
  | [], _ => by simp [AllElList]
  | v :: vs, h => by
    simp [View.inFragment2List] at h; simp only [AllElList]
    exact ⟨inFragment2_allEl v h.1, inFragment2List_allEl vs h.2⟩
end

/-- **C03_build_mount**, stage 2a -/
theorem C03_build_mount_attrvalues (v : View) (d : Dom) (p : Id) (pre post : List Id) (rp : NodeRec)
    (n0 : Nat) (preT postT : List Tree)
    (hv : v.inFragment2 = true)
    (hp : d.get? p = some rp) (hpe : rp.kind.isElem = true) (hk : rp.kids = pre ++ post)
    (hplt : p < d.next) (hsl : ∀ x, x ∈ pre ++ post → x < d.next)
    (hanchor : Anchor d p post.head? pre post)
    (hs : SiblingsOk d [] p pre post n0 preT postT) :
    StateOk AttrsEq (mount (build v d).2 (build v d).1 p post.head?) v (build v d).2 p pre post ∧
    SiblingsOk (mount (build v d).2 (build v d).1 p post.head?) (owned (build v d).2) p pre post
      n0 preT postT ∧
    (∀ m, max n0 v.depth ≤ m → ∃ ts,
      serListN m (mount (build v d).2 (build v d).1 p post.head?)
        ((mount (build v d).2 (build v d).1 p post.head?).kidsOf p) = some ts ∧
      Tree.simList AttrsEq ts (preT ++ render v ++ postT)) := by
  obtain ⟨hok, hle, hfr, hge⟩ := build_mount_spec (R := AttrsEq) v d p pre post rp
    (AllEl.mono AttrsFresh_kv v (inFragment2_allEl v hv)) hp hpe hk hplt hsl hanchor
  have hs' := hs.step hle (fun x hx _ hxp => hfr x hx hxp) (fun x hx => Or.inr (hge x hx))
  exact ⟨hok, hs', hok.serSim AttrsEq.refl hs'⟩

/-- **C03_rebuild_eq_fresh**, stage 2a (every structural combinator incl. `AnyView`; attribute values
`String`, `Option<String>`, `bool`; one whole-value `class` and `style` string): after `rebuild b`
the parent serialises to `pre ++ render b ++ post` with every element's attributes equal **as a
map** to those of the fresh render. -/
theorem C03_rebuild_eq_fresh_attrvalues (a b : View) (ty : Ty) (st : State) (d : Dom) (p : Id)
    (pre post : List Id) (n0 : Nat) (preT postT : List Tree)
    (hta : HasTy a ty) (htb : HasTy b ty)
    (ha : a.inFragment2 = true) (hb : b.inFragment2 = true)
    (hok : StateOk AttrsEq d a st p pre post)
    (hs : SiblingsOk d (owned st) p pre post n0 preT postT) :
    StateOk AttrsEq (rebuild false b st d).1 b (rebuild false b st d).2 p pre post ∧
    SiblingsOk (rebuild false b st d).1 (owned (rebuild false b st d).2) p pre post n0 preT postT ∧
    (∀ m, max n0 b.depth ≤ m → ∃ ts,
      serListN m (rebuild false b st d).1 ((rebuild false b st d).1.kidsOf p) = some ts ∧
      Tree.simList AttrsEq ts (preT ++ render b ++ postT)) := by
  obtain ⟨h1, h2⟩ := rebuild_spec (R := AttrsEq) KVAttrs AttrsFresh_kv
    (fun as bs x y z => AttrsRebuild_kv as bs x y z) b a ty st false d p pre post
    hta.1 hta.2 htb.2 (inFragment2_allEl a ha) (inFragment2_allEl b hb) hok.rep hok.inv
  have hok' : StateOk AttrsEq _ b _ p pre post := ⟨h1, h2.inv⟩
  have hs' := hs.step h2.next_le h2.frame h2.own
  exact ⟨hok', hs', hok'.serSim AttrsEq.refl hs'⟩

def allInFragment2 (ty : Ty) : List View → Prop
  | [] => True
  | b :: bs => HasTy b ty ∧ b.inFragment2 = true ∧ allInFragment2 ty bs

/-- **C03_rebuild_seq**, stage 2a -/
theorem C03_rebuild_seq_attrvalues (ty : Ty) (p : Id) (pre post : List Id) (n0 : Nat)
    (preT postT : List Tree) :
    ∀ (bs : List View) (a : View) (st : State) (d : Dom),
    HasTy a ty → a.inFragment2 = true → allInFragment2 ty bs →
    StateOk AttrsEq d a st p pre post → SiblingsOk d (owned st) p pre post n0 preT postT →
    StateOk AttrsEq (rebuildAll bs st d).1 (lastView a bs) (rebuildAll bs st d).2 p pre post ∧
    (∀ m, max n0 (lastView a bs).depth ≤ m → ∃ ts,
      serListN m (rebuildAll bs st d).1 ((rebuildAll bs st d).1.kidsOf p) = some ts ∧
      Tree.simList AttrsEq ts (preT ++ render (lastView a bs) ++ postT))
  | [], a, st, d, _, _, _, hok, hs => ⟨hok, hok.serSim AttrsEq.refl hs⟩
  | b :: bs, a, st, d, hta, ha, hbs, hok, hs => by
    obtain ⟨htb, hb, hrest⟩ := hbs
    obtain ⟨hok', hs', _⟩ := C03_rebuild_eq_fresh_attrvalues a b ty st d p pre post n0 preT postT
      hta htb ha hb hok hs
    exact C03_rebuild_seq_attrvalues ty p pre post n0 preT postT bs b _ _ htb hb hrest hok' hs'

/-! ## stage 2b: item-wise `class` / `style` writers — `class:name=bool` toggles next to named
attributes and whole-value strings, as long as the footprints of the items of one element are
pairwise disjoint (`ItemAttrs`, `ItemPair`: this is exactly where the finding classes
`class-overwrite`, `style-overwrite`, `dup-item` are excluded); elements compared on *cells*
(`AttrsSim`: named attributes as a map, `class` as a token set, `style` as a declaration map) -/

mutual
theorem PairEl.mono {P Q : List AttrVal → List AttrVal → Prop} (h : ∀ as bs, P as bs → Q as bs) :
    ∀ (a b : View), PairEl P a b → PairEl Q a b
  | .text _, b, _ => by cases b <;> simp [PairEl]
  | .unit, b, _ => by cases b <;> simp [PairEl]
  | .onone, b, _ => by cases b <;> simp [PairEl]
  | .elem _ as c, b, hp => by
    cases b <;> simp only [PairEl] at hp ⊢ <;> try trivial
    exact ⟨h _ _ hp.1, PairEl.mono h c _ hp.2⟩
  | .tuple vs, b, hp => by
    cases b <;> simp only [PairEl] at hp ⊢ <;> try trivial
    exact PairElList.mono h vs _ hp
  | .osome v, b, hp => by
    cases b <;> simp only [PairEl] at hp ⊢ <;> try trivial
    exact PairEl.mono h v _ hp
  | .either _ _ v, b, hp => by
    cases b <;> simp only [PairEl] at hp ⊢ <;> try trivial
    exact fun e => PairEl.mono h v _ (hp e)
  | .vec vs, b, hp => by
    cases b <;> simp only [PairEl] at hp ⊢ <;> try trivial
    exact PairElList.mono h vs _ hp
  | .any _ v, b, hp => by
    cases b <;> simp only [PairEl] at hp ⊢ <;> try trivial
    exact fun e => PairEl.mono h v _ (hp e)
theorem PairElList.mono {P Q : List AttrVal → List AttrVal → Prop} (h : ∀ as bs, P as bs → Q as bs) :
    ∀ (vs ws : List View), PairElList P vs ws → PairElList Q vs ws
  | [], _, _ => by simp [PairElList]
  | _ :: _, [], _ => by simp [PairElList]
  | v :: vs, w :: ws, hp => by
    simp only [PairElList] at hp ⊢
    exact ⟨PairEl.mono h v w hp.1, PairElList.mono h vs ws hp.2⟩
end

mutual
/-- decidable form of `PairEl ItemPair`: every element that a rebuild of `a` into `b` retains has
compatible old and new attribute items -/
def View.pairItems : View → View → Bool
  | .elem _ as c, .elem _ bs c' => decide (ItemPair as bs) && View.pairItems c c'
  | .tuple vs, .tuple ws => View.pairItemsList vs ws
  | .osome v, .osome w => View.pairItems v w
  | .either _ i v, .either _ j w => i != j || View.pairItems v w
  | .vec vs, .vec ws => View.pairItemsList vs ws
  | .any t v, .any t' w => !Ty.beq t' t || View.pairItems v w
  | _, _ => true
def View.pairItemsList : List View → List View → Bool
  | v :: vs, w :: ws => View.pairItems v w && View.pairItemsList vs ws
  | _, _ => true
end

mutual
theorem pairItems_sound : ∀ (a b : View), a.pairItems b = true → PairEl ItemPair a b
  | .text _, b, _ => by cases b <;> simp [PairEl]
  | .unit, b, _ => by cases b <;> simp [PairEl]
  | .onone, b, _ => by cases b <;> simp [PairEl]
  | .elem _ as c, b, hp => by
    cases b <;> simp only [PairEl] <;> try trivial
    simp [View.pairItems] at hp
    exact ⟨hp.1, pairItems_sound c _ hp.2⟩
  | .tuple vs, b, hp => by
    cases b <;> simp only [PairEl] <;> try trivial
    simp only [View.pairItems] at hp
    exact pairItemsList_sound vs _ hp
  | .osome v, b, hp => by
    cases b <;> simp only [PairEl] <;> try trivial
    simp only [View.pairItems] at hp
    exact pairItems_sound v _ hp
  | .either _ i v, b, hp => by
    cases b <;> simp only [PairEl] <;> try trivial
    simp [View.pairItems] at hp
    intro e
    rcases hp with hp | hp
    · exact absurd e hp
    · exact pairItems_sound v _ hp
  | .vec vs, b, hp => by
    cases b <;> simp only [PairEl] <;> try trivial
    simp only [View.pairItems] at hp
    exact pairItemsList_sound vs _ hp
  | .any t v, b, hp => by
    cases b <;> simp only [PairEl] <;> try trivial
    simp [View.pairItems] at hp
    intro e
    rcases hp with hp | hp
    · rw [e] at hp; cases hp
    · exact pairItems_sound v _ hp
theorem pairItemsList_sound : ∀ (vs ws : List View), View.pairItemsList vs ws = true →
    PairElList ItemPair vs ws
  | [], _, _ => by simp [PairElList]
  | _ :: _, [], _ => by simp [PairElList]
  | v :: vs, w :: ws, hp => by
    simp [View.pairItemsList] at hp
    simp only [PairElList]
    exact ⟨pairItems_sound v w hp.1, pairItemsList_sound vs ws hp.2⟩
end

mutual
/-- every element of the view has covered items with pairwise disjoint footprints -/
def View.inFragment3 : View → Bool
  | .elem _ as c => decide (ItemAttrs as) && View.inFragment3 c
  | .tuple vs => View.inFragment3List vs
  | .osome v => View.inFragment3 v
  | .either _ _ v => View.inFragment3 v
  | .vec vs => View.inFragment3List vs
  | .any _ v => View.inFragment3 v
  | _ => true
def View.inFragment3List : List View → Bool
  | [] => true
  | v :: vs => View.inFragment3 v && View.inFragment3List vs
end

mutual
theorem inFragment3_allEl : ∀ (v : View), v.inFragment3 = true → AllEl ItemAttrs v
  | .text _, _ => by simp [AllEl]
  | .unit, _ => by simp [AllEl]
  | .onone, _ => by simp [AllEl]
  | .elem _ as c, h => by
    simp [View.inFragment3] at h; simp only [AllEl]; exact ⟨h.1, inFragment3_allEl c h.2⟩
  | .tuple vs, h => by
    simp only [View.inFragment3] at h; simp only [AllEl]; exact inFragment3List_allEl vs h
  | .osome v, h => by
    simp only [View.inFragment3] at h; simp only [AllEl]; exact inFragment3_allEl v h
  | .either _ _ v, h => by
    simp only [View.inFragment3] at h; simp only [AllEl]; exact inFragment3_allEl v h
  | .vec vs, h => by
    simp only [View.inFragment3] at h; simp only [AllEl]; exact inFragment3List_allEl vs h
  | .any _ v, h => by
    simp only [View.inFragment3] at h; simp only [AllEl]; exact inFragment3_allEl v h
theorem inFragment3List_allEl : ∀ (vs : List View), View.inFragment3List vs = true →
    AllElList ItemAttrs vs
  | [], _ => by simp [AllElList]
  | v :: vs, h => by
    simp [View.inFragment3List] at h; simp only [AllElList]
    exact ⟨inFragment3_allEl v h.1, inFragment3List_allEl vs h.2⟩
end

/-- **C03_build_mount**, stage 2b -/
theorem C03_build_mount_items (v : View) (d : Dom) (p : Id) (pre post : List Id) (rp : NodeRec)
    (n0 : Nat) (preT postT : List Tree)
    (hv : v.inFragment3 = true)
    (hp : d.get? p = some rp) (hpe : rp.kind.isElem = true) (hk : rp.kids = pre ++ post)
    (hplt : p < d.next) (hsl : ∀ x, x ∈ pre ++ post → x < d.next)
    (hanchor : Anchor d p post.head? pre post)
    (hs : SiblingsOk d [] p pre post n0 preT postT) :
    StateOk AttrsSim (mount (build v d).2 (build v d).1 p post.head?) v (build v d).2 p pre post ∧
    SiblingsOk (mount (build v d).2 (build v d).1 p post.head?) (owned (build v d).2) p pre post
      n0 preT postT ∧
    (∀ m, max n0 v.depth ≤ m → ∃ ts,
      serListN m (mount (build v d).2 (build v d).1 p post.head?)
        ((mount (build v d).2 (build v d).1 p post.head?).kidsOf p) = some ts ∧
      Tree.simList AttrsSim ts (preT ++ render v ++ postT)) := by
  obtain ⟨hok, hle, hfr, hge⟩ := build_mount_spec (R := AttrsSim) v d p pre post rp
    (AllEl.mono AttrsFresh_items v (inFragment3_allEl v hv)) hp hpe hk hplt hsl hanchor
  have hs' := hs.step hle (fun x hx _ hxp => hfr x hx hxp) (fun x hx => Or.inr (hge x hx))
  exact ⟨hok, hs', hok.serSim AttrsSim.refl hs'⟩

/-- **C03_rebuild_eq_fresh**, stage 2b: every structural combinator incl. `AnyView`; per element
any mix of named attribute values, `class:name=bool` toggles, whole-value `class` / `style` strings
whose footprints are pairwise disjoint — in the old value, in the new value, and across the two
for the elements that are retained (`pairItems`, decidable).  After `rebuild b` the parent
serialises to `pre ++ render b ++ post` with every element's cells (named attributes, class
tokens, style declarations) equal to those of the fresh render. -/
theorem C03_rebuild_eq_fresh_items (a b : View) (ty : Ty) (st : State) (d : Dom) (p : Id)
    (pre post : List Id) (n0 : Nat) (preT postT : List Tree)
    (hta : HasTy a ty) (htb : HasTy b ty)
    (hb : b.inFragment3 = true) (hab : a.pairItems b = true)
    (hok : StateOk AttrsSim d a st p pre post)
    (hs : SiblingsOk d (owned st) p pre post n0 preT postT) :
    StateOk AttrsSim (rebuild false b st d).1 b (rebuild false b st d).2 p pre post ∧
    SiblingsOk (rebuild false b st d).1 (owned (rebuild false b st d).2) p pre post n0 preT postT ∧
    (∀ m, max n0 b.depth ≤ m → ∃ ts,
      serListN m (rebuild false b st d).1 ((rebuild false b st d).1.kidsOf p) = some ts ∧
      Tree.simList AttrsSim ts (preT ++ render b ++ postT)) := by
  obtain ⟨h1, h2⟩ := rebuild_core (R := AttrsSim) b a ty st false d p pre post hta.1 hta.2 htb.2
    (PairEl.mono AttrsRebuild_items a b (pairItems_sound a b hab))
    (AllEl.mono AttrsFresh_items b (inFragment3_allEl b hb)) hok.rep hok.inv
  have hok' : StateOk AttrsSim _ b _ p pre post := ⟨h1, h2.inv⟩
  have hs' := hs.step h2.next_le h2.frame h2.own
  exact ⟨hok', hs', hok'.serSim AttrsSim.refl hs'⟩

def allItemSteps (ty : Ty) : View → List View → Prop
  | _, [] => True
  | a, b :: bs => HasTy b ty ∧ b.inFragment3 = true ∧ a.pairItems b = true ∧ allItemSteps ty b bs

/-- **C03_rebuild_seq**, stage 2b -/
theorem C03_rebuild_seq_items (ty : Ty) (p : Id) (pre post : List Id) (n0 : Nat)
    (preT postT : List Tree) :
    ∀ (bs : List View) (a : View) (st : State) (d : Dom),
    HasTy a ty → allItemSteps ty a bs →
    StateOk AttrsSim d a st p pre post → SiblingsOk d (owned st) p pre post n0 preT postT →
    StateOk AttrsSim (rebuildAll bs st d).1 (lastView a bs) (rebuildAll bs st d).2 p pre post ∧
    (∀ m, max n0 (lastView a bs).depth ≤ m → ∃ ts,
      serListN m (rebuildAll bs st d).1 ((rebuildAll bs st d).1.kidsOf p) = some ts ∧
      Tree.simList AttrsSim ts (preT ++ render (lastView a bs) ++ postT))
  | [], a, st, d, _, _, hok, hs => ⟨hok, hok.serSim AttrsSim.refl hs⟩
  | b :: bs, a, st, d, hta, hbs, hok, hs => by
    obtain ⟨htb, hb, hab, hrest⟩ := hbs
    obtain ⟨hok', hs', _⟩ := C03_rebuild_eq_fresh_items a b ty st d p pre post n0 preT postT
      hta htb hb hab hok hs
    exact C03_rebuild_seq_items ty p pre post n0 preT postT bs b _ _ htb hrest hok' hs'

/-- **C03_update_eq_fresh**, stage 2b — the property in one statement: build `a`, mount it
between any siblings, rebuild with `b`; the parent then serialises, cell for cell (named attributes,
class tokens, style declarations of every element), to what building `b` fresh and mounting it in
the same place serialises to. -/
theorem C03_update_eq_fresh_items (a b : View) (ty : Ty) (d : Dom) (p : Id) (pre post : List Id)
    (rp : NodeRec) (n0 : Nat) (preT postT : List Tree)
    (hta : HasTy a ty) (htb : HasTy b ty)
    (ha : a.inFragment3 = true) (hb : b.inFragment3 = true) (hab : a.pairItems b = true)
    (hp : d.get? p = some rp) (hpe : rp.kind.isElem = true) (hk : rp.kids = pre ++ post)
    (hplt : p < d.next) (hsl : ∀ x, x ∈ pre ++ post → x < d.next)
    (hanchor : Anchor d p post.head? pre post)
    (hs : SiblingsOk d [] p pre post n0 preT postT) (m : Nat) (hm : max n0 b.depth ≤ m) :
    let d1 := mount (build a d).2 (build a d).1 p post.head?
    let d2 := (rebuild false b (build a d).2 d1).1
    let e1 := mount (build b d).2 (build b d).1 p post.head?
    ∃ ts us, serListN m d2 (d2.kidsOf p) = some ts ∧ serListN m e1 (e1.kidsOf p) = some us ∧
      Tree.simList AttrsSim ts us := by
  intro d1 d2 e1
  obtain ⟨hok1, hs1, _⟩ := C03_build_mount_items a d p pre post rp n0 preT postT ha hp hpe hk hplt
    hsl hanchor hs
  obtain ⟨_, _, h2⟩ := C03_rebuild_eq_fresh_items a b ty _ d1 p pre post n0 preT postT hta htb hb
    hab hok1 hs1
  obtain ⟨_, _, h3⟩ := C03_build_mount_items b d p pre post rp n0 preT postT hb hp hpe hk hplt hsl
    hanchor hs
  obtain ⟨ts, e2, s2⟩ := h2 m hm
  obtain ⟨us, e3, s3⟩ := h3 m hm
  exact ⟨ts, us, e2, e3, Tree.simList.trans (fun _ _ _ h1 h2 c => (h1 c).trans (h2 c)) _ _ _ s2
    (Tree.simList.symm (fun _ _ h c => (h c).symm) _ _ s3)⟩

/-! ## the full statement, and its refutation -/

/-- executable instance of the property in the canonical context: a root element without
siblings; `build a; mount; rebuild b` against `build b; mount`, compared in the oracle's normal
form (attributes as a map, class as a token set, style as a declaration map) -/
def updateEqFresh (a b : View) : Bool :=
  let d0 := (({} : Dom).createElement "main").1
  let r1 := build a d0
  let d1 := mount r1.2 r1.1 0 none
  let r2 := rebuild false b r1.2 d1
  let e1 := build b d0
  let e2 := mount e1.2 e1.1 0 none
  match serializeKids r2.1 0, serializeKids e2 0 with
  | some x, some y => Tree.beqList (Tree.normList x) (Tree.normList y)
  | _, _ => false

/-- **The full statement of C03 over every attribute shape** (OPEN as a theorem about the staged
fragments; as stated over *all* shapes it is false of the code, see below).  The proved part is
`C03_rebuild_eq_fresh` under the decidable hypothesis `inFragment`. -/
def C03_rebuild_eq_fresh_stmt : Prop :=
  ∀ (a b : View) (ty : Ty), HasTy a ty → HasTy b ty → updateEqFresh a b = true

/-- witness of F-C03-1 (class-overwrite): `<div class="a" class=Some("b")>` rebuilt with
`<div class="a" class=None>`: `Option::None` resets by removing the whole `class` attribute,
`Class<String>` sees an unchanged value and does not write it back; a fresh build has `class="a"` -/
def witnessA : View := .elem "div" [.cls "a", .ocls (some "b")] .unit
def witnessB : View := .elem "div" [.cls "a", .ocls none] .unit
def witnessTy : Ty := .elem "div" [.cls, .ocls] .unit

theorem C03_class_overwrite_witness :
    HasTy witnessA witnessTy ∧ HasTy witnessB witnessTy ∧ updateEqFresh witnessA witnessB = false ∧
    View.anyElem classOverwrite witnessB = true := by decide

theorem C03_rebuild_eq_fresh_stmt_false : ¬ C03_rebuild_eq_fresh_stmt := by
  intro h
  have := h witnessA witnessB witnessTy (by decide) (by decide)
  exact absurd this (by decide)


/-! further kernel-checked witnesses for the finding classes that remain (props/C03.known) -/

/-- F-C03-2 style-overwrite -/
theorem C03_style_overwrite_witness :
    updateEqFresh (.elem "div" [.sty "color: red;", .psty "width" "1px"] .unit)
      (.elem "div" [.sty "color: blue;", .psty "width" "1px"] .unit) = false ∧
    View.anyElem styleOverwrite (.elem "div" [.sty "color: blue;", .psty "width" "1px"] .unit) = true := by
  decide

/-- F-C03-5 dup-item -/
theorem C03_dup_item_witness :
    updateEqFresh (.elem "div" [.tcls "on" true, .tcls "on" true] .unit)
      (.elem "div" [.tcls "on" false, .tcls "on" true] .unit) = false ∧
    View.anyElem dupItem (.elem "div" [.tcls "on" false, .tcls "on" true] .unit) = true := by decide

set_option maxRecDepth 8192 in
/-- F-C03-5 across a rename: two items swap their names -/
theorem C03_dup_item_rename_witness :
    updateEqFresh (.elem "div" [.tcls "a" true, .tcls "b" true] .unit)
      (.elem "div" [.tcls "b" true, .tcls "a" true] .unit) = false ∧
    View.anyElemPair dupItemPair (.elem "div" [.tcls "a" true, .tcls "b" true] .unit)
      (.elem "div" [.tcls "b" true, .tcls "a" true] .unit) = true := by decide

/-! ## repaired defects (fix: commits of hooks/fix-c03-{1,3,4}.patch): the inputs now pass, and the
pre-repair code (`rebuildAttrOld`) is kept with its witnesses as regression theorems -/

/-- the canonical-context check for a sequence of rebuilds -/
def updateSeqEqFresh (a : View) (bs : List View) : Bool :=
  let d0 := (({} : Dom).createElement "main").1
  let r1 := build a d0
  let d1 := mount r1.2 r1.1 0 none
  let r2 := rebuildAll bs r1.2 d1
  let e1 := build (lastView a bs) d0
  let e2 := mount e1.2 e1.1 0 none
  match serializeKids r2.1 0, serializeKids e2 0 with
  | some x, some y => Tree.beqList (Tree.normList x) (Tree.normList y)
  | _, _ => false

/-- the same check on one element's attributes, run on the code BEFORE the repairs -/
def attrsUpdateEqFreshOld (er : Bool) (as : List AttrVal) (bss : List (List AttrVal)) : Bool :=
  let d0 := (({} : Dom).createElement "div").1
  let r1 := buildAttrs 0 as d0
  let r2 := bss.foldl (fun (acc : Dom × List AttrState) bs => rebuildAttrsOld er 0 bs acc.2 acc.1) r1
  let e1 := buildAttrs 0 (bss.getLast?.getD as) d0
  normAttrs (r2.1.attrsOf 0) == normAttrs (e1.1.attrsOf 0)

/-- F-C03-1 inside an `AnyView` (repaired by fix-c03-1: `Class<Arc<str>>::rebuild` compares
contents): rebuilding with the identical value keeps the toggled class -/
def witnessAny : View :=
  .any (.elem "div" [.cls, .tcls] .unit) (.elem "div" [.cls "a", .tcls "on" true] .unit)

theorem C03_any_identical_value_fixed :
    HasTy witnessAny .any ∧ updateEqFresh witnessAny witnessAny = true := by decide

theorem C03_any_identical_value_witness_old :
    attrsUpdateEqFreshOld true [.cls "a", .tcls "on" true] [[.cls "a", .tcls "on" true]] = false ∧
    attrsUpdateEqFreshOld false [.cls "a", .tcls "on" true] [[.cls "a", .tcls "on" true]] = true := by
  decide

/-- F-C03-3 toggle-rename (repaired by fix-c03-3) -/
theorem C03_toggle_rename_fixed :
    updateEqFresh (.elem "div" [.tcls "b" true] .unit) (.elem "div" [.tcls "a" true] .unit) = true ∧
    updateEqFresh (.elem "div" [.tcls "b" true] .unit) (.elem "div" [.tcls "a" false] .unit) = true ∧
    updateEqFresh (.elem "div" [.tcls "b" false] .unit) (.elem "div" [.tcls "a" true] .unit) = true := by
  decide

theorem C03_toggle_rename_witness_old :
    attrsUpdateEqFreshOld false [.tcls "b" true] [[.tcls "a" true]] = false ∧
    toggleRenamed [.tcls "b" true] [.tcls "a" true] = true := by decide

/-- F-C03-4 style-rename (repaired by fix-c03-4: the stored name is updated) -/
theorem C03_style_rename_fixed :
    updateSeqEqFresh (.elem "div" [.psty "color" "red"] .unit)
      [.elem "div" [.psty "width" "1px"] .unit, .elem "div" [.psty "--x" "1"] .unit] = true := by
  decide

theorem C03_style_rename_witness_old :
    attrsUpdateEqFreshOld false [.psty "color" "red"] [[.psty "width" "1px"], [.psty "--x" "1"]] = false ∧
    attrsUpdateEqFreshOld false [.psty "color" "red"] [[.psty "width" "1px"]] = true := by decide

/-! ## F-C03-6: a node-less OLD branch (`[T; 0]`, tuples / arrays of such) is never replaced -/

/-- `Either<[String; 0], String>`: `Left([])` rebuilt with `Right("x")`.  `Either::rebuild` builds
the new branch and calls `old.insert_before_this(&mut new)`, which answers `false` (the old state
has no node to insert before); the answer is ignored, the new branch is never mounted.  Such types
are outside `Ty.wf` (`Ty.nodeful` fails for the branch); the driver accepts them through
`Ty.shapeOk` / `hasShape` and classes the failure `nodeless-old-branch`. -/
theorem C03_nodeless_old_branch_witness :
    let ty : Ty := .either [.arr 0 .text, .text]
    let a : View := .either 2 0 (.tuple [])
    let b : View := .either 2 1 (.text "x")
    ty.shapeOk = true ∧ hasShape a ty = true ∧ hasShape b ty = true ∧ ty.wf = false ∧
    updateEqFresh a b = false ∧ a.nodelessBranch = true := by decide

/-- the same through `Option` and through `AnyView` -/
theorem C03_nodeless_old_branch_witness_opt_any :
    updateEqFresh (.osome (.tuple [])) .onone = false ∧
    updateEqFresh (.any (.arr 0 .text) (.tuple [])) (.any .text (.text "x")) = false := by decide

/-- a node-less member is fine as long as the branch has SOME node: the tuple's
`insert_before_this` falls through to the next member (`a || b || …`), first / middle / last
position, and such types are inside the proved fragment (`HasTy`, `inFragment`) -/
example :
    let ty : Ty := .either [.tuple [.arr 0 .text, .text, .arr 0 .text], .tuple [.text, .arr 0 .text], .arr 2 .text]
    let a : View := .either 3 0 (.tuple [.tuple [], .text "a", .tuple []])
    let b : View := .either 3 1 (.tuple [.text "b", .tuple []])
    let c : View := .either 3 2 (.tuple [.text "c", .text "d"])
    HasTy a ty ∧ HasTy b ty ∧ HasTy c ty ∧ ty.inStage1 = true ∧ a.inFragment = true ∧
    updateSeqEqFresh a [b, a, c, a] = true := by decide

/-! ## non-vacuity -/

/-- a stage-1 type with every structural combinator -/
def exTy : Ty :=
  .tuple [.text, .elem "div" [.str "id"] (.tuple [.opt .text, .either [.text, .unit]]), .vec .text]
def exA : View :=
  .tuple [.text "a", .elem "div" [.str "id" "x"] (.tuple [.osome (.text "o"), .either 2 0 (.text "l")]),
    .vec [.text "1", .text "2"]]
def exB : View :=
  .tuple [.text "b", .elem "div" [.str "id" "y"] (.tuple [.onone, .either 2 1 .unit]),
    .vec [.text "1", .text "2", .text "3"]]

example : HasTy exA exTy ∧ HasTy exB exTy ∧ exTy.inStage1 = true := by decide
example : exA.inFragment = true ∧ exB.inFragment = true := by decide
example : updateEqFresh exA exB = true ∧ updateEqFresh exB exA = true := by decide
/-- `AnyView` values are in the proved fragment too (type change and same type) -/
example : (View.any .text (.text "a")).inFragment = true ∧
    updateEqFresh (.any .text (.text "a")) (.any (.vec .text) (.vec [.text "x"])) = true := by decide

/-- the hypotheses of `C03_build_mount` are satisfiable: a root `<main>` with a text sibling before
and a comment after -/
def exDom : Dom :=
  let (d, root) := ({} : Dom).createElement "main"
  let (d, t) := d.createTextNode "x"
  let d := d.insertNode root t none
  let (d, c) := d.createComment "m"
  d.insertNode root c none

def treesAre (o : Option (List Tree)) (ts : List Tree) : Bool :=
  match o with
  | some x => Tree.beqList x ts
  | none => false

example : exDom.kidsOf 0 = [1, 2] ∧ exDom.next = 3 ∧ exDom.isElement 0 = true ∧
    exDom.getParent 2 = some 0 ∧
    treesAre (serListN 1 exDom [1]) [Tree.text "x"] = true ∧
    treesAre (serListN 1 exDom [2]) [Tree.comment "m"] = true ∧
    subIds 1 exDom 1 = [1] ∧ subIds 1 exDom 2 = [2] := by decide

/-- and the conclusion computed on that DOM: build + mount, rebuild, unmount -/
example :
    let r := build exA exDom
    let d1 := mount r.2 r.1 0 (some 2)
    let r2 := rebuild false exB r.2 d1
    treesAre (serializeKids d1 0) ([Tree.text "x"] ++ render exA ++ [Tree.comment "m"]) = true ∧
    treesAre (serializeKids r2.1 0) ([Tree.text "x"] ++ render exB ++ [Tree.comment "m"]) = true ∧
    (unmount r2.2 r2.1).kidsOf 0 = [1, 2] := by decide

/-- non-vacuity for stage 2a: the attribute goes away and comes back at the END of the list -/
example :
    let a : View := .elem "p" [.ostr "title" (some "t"), .str "id" "x", .bool "hidden" true, .cls "c"] .unit
    let b : View := .elem "p" [.ostr "title" none, .str "id" "y", .bool "hidden" false, .cls "c d"] .unit
    a.inFragment2 = true ∧ b.inFragment2 = true ∧ a.inFragment = false ∧
    updateSeqEqFresh a [b, a] = true := by decide


set_option maxRecDepth 16384 in
/-- non-vacuity for stage 2b: toggles are switched and RENAMED next to named attributes and a style
string; the excluded shapes are exactly the finding classes -/
example :
    let a : View := .elem "div" [.str "id" "x", .tcls "a" true, .tcls "b" false, .ostr "title" none, .sty "color: red;"] .unit
    let b : View := .elem "div" [.str "id" "y", .tcls "c" true, .tcls "b" true, .ostr "title" (some "t"), .sty "width: 1px"] .unit
    a.inFragment3 = true ∧ b.inFragment3 = true ∧ a.pairItems b = true ∧ b.pairItems a = true ∧
    b.inFragment2 = false ∧ updateSeqEqFresh a [b, a, b] = true := by decide

set_option maxRecDepth 16384 in
/-- what `pairItems` / `inFragment3` exclude: class-overwrite, dup-item, dup-item across a rename -/
example :
    witnessB.inFragment3 = false ∧
    (View.elem "div" [.tcls "on" false, .tcls "on" true] .unit).inFragment3 = false ∧
    View.pairItems (.elem "div" [.tcls "a" true, .tcls "b" true] .unit)
      (.elem "div" [.tcls "b" true, .tcls "a" true] .unit) = false := by decide

/-! non-vacuity for stage 2b, `style:name=value` items: a property is changed, renamed (also to a
name that only differs in case), given a blank value (= removed), an optional property appears and
disappears, all next to class toggles; a property item next to a whole `style` string is excluded
(style-overwrite) and so is the same property twice (dup-item) -/
def exS1 : View := .elem "div" [.psty "color" "red", .psty "Width" " 1px", .opsty "margin" none,
  .tcls "a" true, .opsty "top" (some "0")] .unit
def exS2 : View := .elem "div" [.psty "COLOR" "blue", .psty "height" "2px",
  .opsty "margin" (some "3px"), .tcls "b" true, .opsty "top" none] .unit
def exS3 : View := .elem "div" [.psty "color" "  ", .psty "height" "2px", .opsty "left" (some "3px"),
  .tcls "b" false, .opsty "top" (some "1")] .unit

set_option maxRecDepth 32768 in
example : exS1.inFragment3 = true ∧ exS2.inFragment3 = true ∧ exS3.inFragment3 = true := by decide
set_option maxRecDepth 32768 in
example : exS1.pairItems exS2 = true ∧ exS2.pairItems exS3 = true ∧ exS3.pairItems exS1 = true := by
  decide
example : updateSeqEqFresh exS1 [exS2, exS3, exS1, exS3, exS2] = true := by decide +kernel
set_option maxRecDepth 32768 in
example :
    (View.elem "div" [.sty "color: red", .psty "width" "1px"] .unit).inFragment3 = false ∧
    (View.elem "div" [.psty "Color" "red", .psty "color " "blue"] .unit).inFragment3 = false ∧
    (View.elem "div" [.psty "a;b" "red"] .unit).inFragment3 = false ∧
    (View.elem "div" [.psty "color" "red; width: 1px"] .unit).inFragment3 = false := by decide

/-! ## erased / cloneable attribute forms, optional whole-value style, attribute spreading

The Rust string type of an attribute value (`String`, `&str`, `Cow`, `Arc<str>`, `Oco`) and the
`into_cloneable()` / `into_cloneable_owned()` conversions that `into_any()` / `add_any_attr` apply do
not exist in the model (one string type): every theorem above holds for all of them alike, and the
correspondence run compares each form against the same model value.  `Style<Option<_>>` is the
optional named attribute `style` (`.ostr "style"`, stage 2a).  Spreading is `View.spread`. -/

/-- **C03_spread_typed**: spreading an item whose key is new on the elements it reaches keeps a
view a value of a well-formed type, so the theorems of this file speak about spread views -/
theorem C03_spread_typed {v : View} {ty : Ty} (a : AttrVal) (h : HasTy v ty)
    (hk : Ty.spreadKeysOk a.ty ty = true) (hv : View.spreadKeysOk a.ty v = true) :
    HasTy (View.spread a v) (Ty.spread a.ty ty) := h.spread a hk hv

set_option maxRecDepth 16384 in
/-- round-3 seed 3 as a model fact: an element with a class and an optional whole-value style,
`Some -> None -> Some`, also inside an `AnyView` (where the code holds `Arc<str>` values): in the
proved fragment (stage 2a), and the update equals the fresh render -/
example :
    let t : Ty := .elem "div" [.cls, .ostr "style"] .unit
    let a : View := .elem "div" [.cls "card", .ostr "style" (some "color: red")] .unit
    let b : View := .elem "div" [.cls "card", .ostr "style" none] .unit
    HasTy a t ∧ HasTy b t ∧ a.inFragment2 = true ∧ b.inFragment2 = true ∧
    updateSeqEqFresh a [b, a, b] = true ∧
    updateSeqEqFresh (.any t a) [.any t b, .any t a] = true := by decide

set_option maxRecDepth 16384 in
/-- non-vacuity of `C03_spread_typed` and of stage 2b on a spread view: an optional class spread
over a tuple with two elements and a text -/
example :
    let ty : Ty := .tuple [.elem "div" [.str "id"] .unit, .text, .elem "p" [.tcls] .text]
    let v : View := .tuple [.elem "div" [.str "id" "x"] .unit, .text "t", .elem "p" [.tcls "on" true] (.text "u")]
    let a : AttrVal := .ostr "title" (some "k")
    let b : AttrVal := .ostr "title" none
    HasTy v ty ∧ Ty.spreadKeysOk a.ty ty = true ∧ View.spreadKeysOk a.ty v = true ∧
    (View.spread a v).inFragment3 = true ∧ (View.spread a v).pairItems (View.spread b v) = true ∧
    updateSeqEqFresh (View.spread a v) [View.spread b v, View.spread a v] = true := by decide

/-! ## `StaticVec` (the C03-local wrapper of the correspondence driver) -/

/-- after `unmount` the parent is ready for a fresh `build` + `mount` between the same siblings:
the parent is still an element (kind preservation of `removeAll`), its children are `pre ++ post`,
the siblings are untouched -/
theorem unmount_ready {R : List (String × String) → List (String × String) → Prop}
    (v : View) (st : State) (d : Dom) (p : Id) (pre post : List Id) (n0 : Nat)
    (preT postT : List Tree)
    (hok : StateOk R d v st p pre post) (hs : SiblingsOk d (owned st) p pre post n0 preT postT) :
    ∃ rp', (unmount st d).get? p = some rp' ∧ rp'.kind.isElem = true ∧ rp'.kids = pre ++ post ∧
      p < (unmount st d).next ∧ (∀ x, x ∈ pre ++ post → x < (unmount st d).next) ∧
      SiblingsOk (unmount st d) [] p pre post n0 preT postT := by
  obtain ⟨rp, hp, hpe, hk⟩ := hok.inv.par
  have hspec := removeAll_spec st.roots d p rp pre post hp hk hok.inv.rnodup
    (Rep.roots_parent v st (some p) hok.rep) (fun hm => hok.inv.pnot (hok.inv.sub p hm))
    (fun r hr => ⟨fun hm => hok.inv.sib r (by simp [hm]) (hok.inv.sub r hr),
      fun hm => hok.inv.sib r (by simp [hm]) (hok.inv.sub r hr)⟩)
  obtain ⟨⟨rp', hp', heq, hk'⟩, hoth, hnx⟩ := hspec
  rw [unmount_eq]
  refine ⟨rp', hp', by rw [heq.1]; exact hpe, hk', by rw [hnx]; exact hok.inv.plt,
    fun x hx => by rw [hnx]; exact hok.inv.siblt x hx, ?_⟩
  exact hs.step (by rw [hnx]; exact Nat.le_refl _)
    (fun x _ hxo hxp => hoth x hxp (fun hr => hxo (hok.inv.sub x hr)))
    (fun x hx => by simp at hx)

/-- **C03_staticvec_rebuild** (stage 1 fragment).  `StaticVec::rebuild` as the correspondence
driver runs it — unmount the old items, build the new ones, mount them with no marker — on a
`StaticVec` whose items are the LAST children of their parent `p` (the mount parent for a top-level
`StaticVec`, the element itself for an element whose one child is the `StaticVec`; `pre` are the
siblings before it): the parent then serialises to `pre ++ render b`, i.e. exactly what a fresh
`build` + `mount` of `b` gives (`C03_build_mount`), and the new state is `StateOk` again, so the
next rebuild / unmount starts from the same situation.  `a` and `b` need not have the same type
(the list may grow or shrink). -/
theorem C03_staticvec_rebuild (a b : View) (st : State) (d : Dom) (p : Id) (pre : List Id)
    (n0 : Nat) (preT : List Tree)
    (hb : b.inFragment = true)
    (hok : StateOk Eq d a st p pre []) (hs : SiblingsOk d (owned st) p pre [] n0 preT []) :
    let r := build b (unmount st d)
    let d' := mount r.2 r.1 p none
    StateOk Eq d' b r.2 p pre [] ∧ SiblingsOk d' (owned r.2) p pre [] n0 preT [] ∧
    (∀ m, max n0 b.depth ≤ m → serListN m d' (d'.kidsOf p) = some (preT ++ render b ++ [])) := by
  obtain ⟨rp', hp', hpe', hk', hplt, hsl, hs1⟩ := unmount_ready a st d p pre [] n0 preT [] hok hs
  exact C03_build_mount b (unmount st d) p pre [] rp' n0 preT [] hb hp' hpe' hk' hplt hsl rfl hs1

/-- **C03_staticvec_rebuild**, stage 2b (item-wise attributes; elements compared on cells) -/
theorem C03_staticvec_rebuild_items (a b : View) (st : State) (d : Dom) (p : Id) (pre : List Id)
    (n0 : Nat) (preT : List Tree)
    (hb : b.inFragment3 = true)
    (hok : StateOk AttrsSim d a st p pre []) (hs : SiblingsOk d (owned st) p pre [] n0 preT []) :
    let r := build b (unmount st d)
    let d' := mount r.2 r.1 p none
    StateOk AttrsSim d' b r.2 p pre [] ∧ SiblingsOk d' (owned r.2) p pre [] n0 preT [] ∧
    (∀ m, max n0 b.depth ≤ m → ∃ ts, serListN m d' (d'.kidsOf p) = some ts ∧
      Tree.simList AttrsSim ts (preT ++ render b ++ [])) := by
  obtain ⟨rp', hp', hpe', hk', hplt, hsl, hs1⟩ := unmount_ready a st d p pre [] n0 preT [] hok hs
  exact C03_build_mount_items b (unmount st d) p pre [] rp' n0 preT [] hb hp' hpe' hk' hplt hsl rfl
    hs1

/-- what the driver's `rebuildSv` does at top level is this composition -/
example (b : View) (st : State) (d : Dom) (p : Id) :
    (let d1 := unmount st d; let r := build b d1; (mount r.2 r.1 p none, r.2)) =
    (mount (build b (unmount st d)).2 (build b (unmount st d)).1 p none, (build b (unmount st d)).2) :=
  rfl



/-- the children of a mounted (non-void) element are a mounted state of their own: the region is
ALL the children of the element (`pre = post = []`) -/
theorem StateOk.elemChild {R : List (String × String) → List (String × String) → Prop}
    {d : Dom} {tag : String} {as : List AttrVal} {c : View} {el : Id} {ass : List AttrState}
    {cs : State} {p : Id} {pre post : List Id} (hv : isVoid tag = false)
    (h : StateOk R d (.elem tag as c) (.elem el ass (some cs)) p pre post) :
    StateOk R d c cs el [] [] ∧ SiblingsOk d (owned cs) el [] [] 0 [] [] := by
  have hrep := h.rep
  simp only [Rep, hv, Bool.false_eq_true, if_false] at hrep
  obtain ⟨r, hg, hk, _, _, _, c', hcs, hkc, hrc⟩ := hrep
  cases hcs
  have hnd := h.inv.nodup
  simp only [owned, ownedOpt, List.nodup_cons] at hnd
  refine ⟨⟨hrc, ?_⟩, ⟨by simp [serListN, allSome], by simp [serListN, allSome], by simp⟩⟩
  apply Inv.ofState ⟨r, hg, by rw [hk]; rfl, by simp [hkc]⟩ hnd.2 hnd.1 (by simp)
  · intro x hx; exact h.inv.lt x (by simp [owned, ownedOpt, hx])
  · exact h.inv.lt el (by simp [owned])
  · simp

/-- **C03_staticvec_rebuild for the one child of an element**: the `StaticVec` children `ca` of a
mounted element are replaced by `cb` (unmount, build, mount at the end of the element): the
element's children then serialise to `render cb`, what a fresh build of the element's children
gives, and are a mounted state again -/
theorem C03_staticvec_rebuild_child (tag : String) (as : List AttrVal) (ca cb : View) (el : Id)
    (ass : List AttrState) (cs : State) (d : Dom) (p : Id) (pre post : List Id)
    (hv : isVoid tag = false) (hb : cb.inFragment = true)
    (hok : StateOk Eq d (.elem tag as ca) (.elem el ass (some cs)) p pre post) :
    let r := build cb (unmount cs d)
    let d' := mount r.2 r.1 el none
    StateOk Eq d' cb r.2 el [] [] ∧
    (∀ m, cb.depth ≤ m → serListN m d' (d'.kidsOf el) = some (render cb)) := by
  obtain ⟨hc, hs⟩ := hok.elemChild hv
  obtain ⟨h1, _, h3⟩ := C03_staticvec_rebuild ca cb cs d el [] 0 [] hb hc hs
  exact ⟨h1, fun m hm => by simpa using h3 m (by omega)⟩

section
variable {R : List (String × String) → List (String × String) → Prop}

/-- `build` + `mount` keep the parent's own record up to its children -/
theorem build_mount_pframe (v : View) (d : Dom) (p : Id) (pre post : List Id) (rp : NodeRec)
    (hv : AllEl (AttrsFresh R) v)
    (hp : d.get? p = some rp) (hpe : rp.kind.isElem = true) (hk : rp.kids = pre ++ post)
    (hplt : p < d.next) (hsl : ∀ x, x ∈ pre ++ post → x < d.next)
    (hanchor : Anchor d p post.head? pre post) :
    ∃ rp', (mount (build v d).2 (build v d).1 p post.head?).get? p = some rp' ∧ EqModKids rp rp' := by
  have hB := build_spec (R := R) v d hv
  generalize build v d = bd at hB ⊢
  obtain ⟨d1, ns⟩ := bd
  dsimp only at hB ⊢
  have hp1 : d1.get? p = some rp := by rw [hB.frame p hplt]; exact hp
  have hnsge : ∀ x, x ∈ owned ns → d.next ≤ x := fun x hx => (hB.range x hx).1
  have hanchor1 : Anchor d1 p post.head? pre post := by
    cases hpost : post.head? with
    | none => rw [hpost] at hanchor; exact hanchor
    | some a =>
      rw [hpost] at hanchor
      obtain ⟨l2', h1, h2, h3⟩ := hanchor
      refine ⟨l2', h1, h2, ?_⟩
      have halt : a < d.next := hsl a (by simp [h1])
      simp only [Dom.getParent] at h3 ⊢
      rw [hB.frame a halt]; exact h3
  have hspec := insertAll_spec ns.roots d1 p post.head? rp pre post hp1 hpe hk hanchor1
    (roots_nodup hB.nodup) (Rep.roots_parent v ns none hB.rep)
    (by intro h; have := hnsge p (roots_sub_owned ns p h); omega_nat)
    (by
      intro r hr
      have hge := hnsge r (roots_sub_owned ns r hr)
      exact ⟨fun h => by have := hsl r (by simp [h]); omega_nat,
        fun h => by have := hsl r (by simp [h]); omega_nat⟩)
  obtain ⟨⟨rp', hp', he', _⟩, _, _, _⟩ := hspec
  rw [mount_eq]
  exact ⟨rp', hp', he'⟩

/-- the `StaticVec` children of a mounted element are replaced (unmount, build, mount at the end of
the element): the ELEMENT is a mounted state of the new value, and nothing outside it changed -/
theorem staticvec_child_spec (tag : String) (as : List AttrVal) (ca cb : View) (el : Id)
    (ass : List AttrState) (cs : State) (d : Dom) (p : Id) (pre post : List Id)
    (hv : isVoid tag = false) (hb : AllEl (AttrsFresh R) cb)
    (hok : StateOk R d (.elem tag as ca) (.elem el ass (some cs)) p pre post) :
    StateOk R (mount (build cb (unmount cs d)).2 (build cb (unmount cs d)).1 el none)
      (.elem tag as cb) (.elem el ass (some (build cb (unmount cs d)).2)) p pre post ∧
    Res d (mount (build cb (unmount cs d)).2 (build cb (unmount cs d)).1 el none)
      (el :: owned cs) [el] (el :: owned (build cb (unmount cs d)).2) p pre post := by
  obtain ⟨hc, _⟩ := hok.elemChild hv
  -- the unmount step
  obtain ⟨rp, hp, hpe, hk⟩ := hc.inv.par
  have hspec := removeAll_spec cs.roots d el rp [] [] hp hk hc.inv.rnodup
    (Rep.roots_parent ca cs (some el) hc.rep) (fun hm => hc.inv.pnot (hc.inv.sub el hm))
    (fun r hr => ⟨by simp, by simp⟩)
  obtain ⟨⟨rp1, hp1, heq1, hk1⟩, hoth, hnx⟩ := hspec
  rw [← unmount_eq] at hp1 hoth hnx
  -- build + mount
  have hplt : el < (unmount cs d).next := by rw [hnx]; exact hc.inv.plt
  obtain ⟨hok', hle, hfr, hge⟩ := build_mount_spec (R := R) cb (unmount cs d) el [] [] rp1 hb hp1
    (by rw [heq1.1]; exact hpe) hk1 hplt (by simp) rfl
  obtain ⟨rp2, hp2, heq2⟩ := build_mount_pframe (R := R) cb (unmount cs d) el [] [] rp1 hb hp1
    (by rw [heq1.1]; exact hpe) hk1 hplt (by simp) rfl
  have hhead : ([] : List Id).head? = none := rfl
  rw [hhead] at hok' hle hfr hp2
  have s2 : Res d (mount (build cb (unmount cs d)).2 (build cb (unmount cs d)).1 el none)
      (owned cs) (build cb (unmount cs d)).2.roots (owned (build cb (unmount cs d)).2) el [] [] := by
    refine ⟨hok'.inv, by rw [← hnx]; exact hle, ?_, ?_, ?_⟩
    · intro x hx hxo hxe
      rw [hfr x (by rw [hnx]; exact hx) hxe]
      exact hoth x hxe (fun hr => hxo (hc.inv.sub x hr))
    · intro r hr
      rw [hp] at hr; cases hr
      exact ⟨rp2, hp2, heq1.trans heq2⟩
    · intro x hx; right; rw [← hnx]; exact hge x hx
  have hinv : Inv d [el] (el :: owned cs) p pre post := by
    simpa [State.roots, owned, ownedOpt] using hok.inv
  have res := Res.nest (d1 := d) hinv rfl (fun _ _ => rfl) s2
  refine ⟨⟨?_, by simpa [State.roots, owned, ownedOpt] using res.inv⟩, res⟩
  -- the element's own record
  have hrep := hok.rep
  simp only [Rep, hv, Bool.false_eq_true, if_false] at hrep
  obtain ⟨r, hg, hkind, hpar, hattrs, hass, _⟩ := hrep
  rw [hp] at hg; cases hg
  obtain ⟨rp3, hgp, _, hkp⟩ := hok'.inv.par
  rw [hp2] at hgp; cases hgp
  have he := heq1.trans heq2
  simp only [Rep, hv, Bool.false_eq_true, if_false]
  exact ⟨rp2, hp2, by rw [he.1, hkind], by rw [he.2.1, hpar], by rw [he.2.2.1]; exact hattrs, hass,
    _, rfl, by simpa using hkp, hok'.rep⟩

end

/-- **C03_staticvec_rebuild for the one child of an element**, the whole element (stage 1): after
the `StaticVec` children `ca` of a mounted element were replaced by `cb`, the ELEMENT's parent
serialises to `pre ++ render (element with children cb) ++ post` — the fresh render — and the
element is a mounted state of the new value -/
theorem C03_staticvec_rebuild_elem (tag : String) (as : List AttrVal) (ca cb : View) (el : Id)
    (ass : List AttrState) (cs : State) (d : Dom) (p : Id) (pre post : List Id) (n0 : Nat)
    (preT postT : List Tree)
    (hv : isVoid tag = false) (hb : cb.inFragment = true)
    (hok : StateOk Eq d (.elem tag as ca) (.elem el ass (some cs)) p pre post)
    (hs : SiblingsOk d (owned (.elem el ass (some cs))) p pre post n0 preT postT) :
    let r := build cb (unmount cs d)
    let d' := mount r.2 r.1 el none
    StateOk Eq d' (.elem tag as cb) (.elem el ass (some r.2)) p pre post ∧
    (∀ m, max n0 (View.elem tag as cb).depth ≤ m →
      serListN m d' (d'.kidsOf p) = some (preT ++ render (.elem tag as cb) ++ postT)) := by
  obtain ⟨hok', res⟩ := staticvec_child_spec (R := Eq) tag as ca cb el ass cs d p pre post hv
    (AllEl.mono AttrsFresh_static cb (inFragment_allEl cb hb)) hok
  have hs' : SiblingsOk _ (owned (.elem el ass (some (build cb (unmount cs d)).2))) p pre post n0
      preT postT :=
    hs.step res.next_le (by simpa [owned, ownedOpt] using res.frame)
      (by simpa [owned, ownedOpt] using res.own)
  exact ⟨hok', hok'.ser hs'⟩

end Leptos.View
