import LeptosModel.Model.Dom
import LeptosModel.Model.View
namespace Leptos.View
open Leptos.Dom

/-- placeholder while the proofs are being written -/
theorem C03_stub : True := trivial

end Leptos.View
