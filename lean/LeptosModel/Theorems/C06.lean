import LeptosModel.Proofs.Html
/-!
# C06 — server-rendered HTML cannot be altered by the data it contains

`toHtml` is the model of tachys' sync `to_html()`, `parse` the WHATWG subset of Model/Html
(it returns `none` outside the subset, so `parse (toHtml v) = some …` cannot hold vacuously),
`structureOf` the DOM a view denotes.  Strings are `List Char`, unbounded.
-/
namespace Leptos.Html

/-! ## strings in text and attribute positions -/

/-- **text**: for every string without NUL/CR, the escaped text tokenises (data state) to exactly one
text node with content `s` — nothing for the empty string; no tag, comment or reference surprises. -/
theorem C06_text_roundtrip (s : Str) (h : clean s = true) : parse (escapeText s) = some (textTree s) := by
  have := run_escapeText s rootFrame [] (Or.inl (by decide)) h
  unfold parse initState
  rw [this]
  by_cases hs : s = []
  · subst hs; simp [pushStrKids, textTree, finish, rootFrame]
  · rw [show rootFrame.kidsRev = [] from rfl, pushStrKids_fresh s [] hs rfl]
    simp [textTree, hs, finish, rootFrame]

/-- the same inside RCDATA (`<title>`): the frame on top may be any escaping-mode element -/
theorem C06_text_roundtrip_in (s : Str) (h : clean s = true) (f : Frame) (fs : List Frame)
    (hm : modeOfTag f.tag = .data ∨ modeOfTag f.tag = .rcdata) :
    run ⟨.text, f :: fs⟩ (escapeText s) = some ⟨.text, { f with kidsRev := pushStrKids s f.kidsRev } :: fs⟩ :=
  run_escapeText s f fs hm h

/-- **attribute value**: inside `="…"` the escaped value never ends the attribute (the tokenizer is
still in the double-quoted value state after all of it) and what it has decoded is `s`. -/
theorem C06_attr_roundtrip (s : Str) (h : clean s = true) (tg : TagTok) (n : Str) (st : List Frame) :
    run ⟨.attrVal .dq tg n [], st⟩ (escapeAttr s) = some ⟨.attrVal .dq tg n s, st⟩ := by
  simpa using run_escapeAttr s tg n [] st h

/-! ## whole views -/

/-- **structure preserved** (proved part): for every view built from ordinary containers nested
arbitrarily, void elements, child-less raw-text elements and `<title>{s}</title>`, with plain /
boolean / class / style attributes, and for *all* strings free of NUL/CR in every text, attribute,
class and style position, the emitted HTML parses to exactly the structure the view denotes. -/
theorem C06_structure_preserved (v : List Node) (h : wfKids [[]] v = true) :
    parse (toHtml v) = some (structureOf v) := by
  have := run_kids v rootFrame [] .firstChild h (by decide) (by decide)
  unfold parse initState toHtml
  rw [this]
  simp [finish, rootFrame, structureOf]

/-! ## the full statement and why it is false of the code -/

def attrShape : Attr → Bool
  | .plain n _ => attrNameOK n
  | .bool n _ => attrNameOK n
  | .innerHtml _ => false
  | _ => true

def attrsShape (attrs : List Attr) : Bool :=
  attrs.all attrShape && decide (((expectedAttrs attrs).map (·.1)).Nodup)

def titleShape : List Node → Bool
  | [] => true
  | [.text _] => true
  | _ => false

mutual
/-- **view shapes** the property quantifies over: element nesting the tree builder accepts, known
tags, tokenizable pairwise-distinct attribute names — and *no* condition on any string value.
Raw-text elements (`script style textarea noscript`) take string children, `title` one string. -/
def shapeNode (anc : List Str) : Node → Bool
  | .text _ => true
  | .elem tag attrs kids =>
    attrsShape attrs && nestOK tag anc &&
      ((genericOK tag && shapeKids (tag :: anc) kids) || (voidOK tag && kids.isEmpty) ||
       (rawLike tag && !escapeChildren tag && kids.all isTextNode) || (tag = tTitle && titleShape kids))
def shapeKids (anc : List Str) : List Node → Bool
  | [] => true
  | n :: ns => shapeNode anc n && shapeKids anc ns
end

/-- the full property: every shape, every string -/
def C06_structure_preserved_full : Prop :=
  ∀ v : List Node, shapeKids [[]] v = true → parse (toHtml v) = some (structureOf v)

def sDiv : Str := ['d','i','v']
def sImg : Str := ['i','m','g']

/-- `</textarea><img src=x onerror=alert(1)><textarea>` -/
def payloadTextarea : Str :=
  ['<','/','t','e','x','t','a','r','e','a','>','<','i','m','g',' ','s','r','c','=','x',' ',
   'o','n','e','r','r','o','r','=','a','l','e','r','t','(','1',')','>','<','t','e','x','t','a','r','e','a','>']

/-- F-C06-1: a string child of `<textarea>` is emitted unescaped; it closes the element and the
document gains an `<img onerror=…>` element that no view contains. -/
theorem C06_raw_text_child_witness :
    shapeKids [[]] [.elem tTextarea [] [.text payloadTextarea]] = true ∧
    parse (toHtml [.elem tTextarea [] [.text payloadTextarea]]) =
      some [.elem tTextarea [] [],
            .elem sImg [(['s','r','c'], ['x']),
                        (['o','n','e','r','r','o','r'], ['a','l','e','r','t','(','1',')'])] [],
            .elem tTextarea [] []] ∧
    structureOf [.elem tTextarea [] [.text payloadTextarea]] =
      [.elem tTextarea [] [.text payloadTextarea]] := by
  decide

/-- the same through `noscript`, `style` and `script` -/
theorem C06_raw_text_child_witness_others :
    parse (toHtml [.elem tNoscript [] [.text ['<','/','n','o','s','c','r','i','p','t','>','<','b','>','x','<','/','b','>','<','n','o','s','c','r','i','p','t','>']]]) =
      some [.elem tNoscript [] [], .elem ['b'] [] [.text ['x']], .elem tNoscript [] []] ∧
    parse (toHtml [.elem tStyle [] [.text ['<','/','s','t','y','l','e','>','<','b','>','x','<','/','b','>','<','s','t','y','l','e','>']]]) =
      some [.elem tStyle [] [], .elem ['b'] [] [.text ['x']], .elem tStyle [] []] ∧
    parse (toHtml [.elem tScript [] [.text ['<','/','s','c','r','i','p','t','>','<','b','>','x','<','/','b','>','<','s','c','r','i','p','t','>']]]) =
      some [.elem tScript [] [], .elem ['b'] [] [.text ['x']], .elem tScript [] []] := by
  decide

/-- F-C06-3: U+0000 is emitted raw in text; a parser drops it (here: outside the subset) -/
theorem C06_nul_witness :
    shapeKids [[]] [.elem sDiv [] [.text ['a', cNul, 'b']]] = true ∧
    toHtml [.elem sDiv [] [.text ['a', cNul, 'b']]] = ['<','d','i','v','>','a', cNul, 'b','<','/','d','i','v','>'] ∧
    parse (toHtml [.elem sDiv [] [.text ['a', cNul, 'b']]]) = none := by
  decide

/-- F-C06-4: U+000D is emitted raw in text and attribute values; a parser turns it into U+000A -/
theorem C06_cr_witness :
    toHtml [.elem sDiv [.plain ['i','d'] ['a', cCr]] []] =
      ['<','d','i','v',' ','i','d','=','"','a', cCr,'"','>','<','/','d','i','v','>'] ∧
    parse (toHtml [.elem sDiv [.plain ['i','d'] ['a', cCr]] []]) = none := by
  decide

theorem C06_structure_preserved_full_false : ¬ C06_structure_preserved_full := by
  intro h
  have := h [.elem tTextarea [] [.text payloadTextarea]] C06_raw_text_child_witness.1
  rw [C06_raw_text_child_witness.2.1, C06_raw_text_child_witness.2.2] at this
  revert this
  decide

/-! ## the partial theorem: everything outside the three finding classes -/

theorem attrClean_of (a : Attr) (h1 : attrShape a = true) (h2 : attrValClean a = true) : attrClean a = true := by
  cases a <;> simp_all [attrShape, attrValClean, attrClean]

theorem attrsOK_of (attrs : List Attr) (h1 : attrsShape attrs = true) (h2 : attrs.all attrValClean = true) :
    attrsOK attrs = true := by
  simp only [attrsShape, attrsOK, Bool.and_eq_true, List.all_eq_true] at *
  exact ⟨fun a ha => attrClean_of a (h1.1 a ha) (h2 a ha), h1.2⟩

theorem no_text_all_text (kids : List Node) (h1 : kids.all isTextNode = true) (h2 : kids.any isTextNode = false) :
    kids = [] := by
  cases kids with
  | nil => rfl
  | cons k ks => simp_all

mutual
theorem wf_of_shape_node : (n : Node) → ∀ (anc : List Str), shapeNode anc n = true → cleanNode n = true →
    rawTextFree n = true → wfNode anc n = true
  | .text s, anc, _, hc, _ => by simpa [wfNode, cleanNode] using hc
  | .elem tag attrs kids, anc, hs, hc, hr => by
    simp only [shapeNode, Bool.and_eq_true, Bool.or_eq_true] at hs
    simp only [cleanNode, Bool.and_eq_true] at hc
    simp only [rawTextFree, Bool.and_eq_true, Bool.or_eq_true] at hr
    obtain ⟨⟨hattrs, hnest⟩, hcase⟩ := hs
    have hao := attrsOK_of attrs hattrs hc.1
    simp only [wfNode, Bool.and_eq_true, Bool.or_eq_true, hao, hnest, true_and]
    rcases hcase with ((⟨hg, hk⟩ | hv) | ⟨⟨hraw, hesc⟩, hall⟩) | ⟨ht, hts⟩
    · exact Or.inl (Or.inl (Or.inl ⟨hg, wf_of_shape_kids kids (tag :: anc) hk hc.2 hr.2⟩))
    · exact Or.inl (Or.inl (Or.inr hv))
    · have hesc' : escapeChildren tag = false := by simpa using hesc
      have : kids = [] := by
        apply no_text_all_text kids hall
        rcases hr.1 with h | h
        · rw [hesc'] at h; exact absurd h (by simp)
        · simpa using h
      subst this
      exact Or.inl (Or.inr ⟨hraw, rfl⟩)
    · match kids, hts, hc with
      | [], _, _ =>
        simp only [decide_eq_true_eq] at ht
        subst ht
        exact Or.inl (Or.inr ⟨by decide, rfl⟩)
      | [.text s], _, hc =>
        refine Or.inr ⟨ht, ?_⟩
        simpa [titleKids, cleanKids, cleanNode] using hc.2
theorem wf_of_shape_kids : (ns : List Node) → ∀ (anc : List Str), shapeKids anc ns = true → cleanKids ns = true →
    rawTextFreeKids ns = true → wfKids anc ns = true
  | [], _, _, _, _ => by simp [wfKids]
  | n :: ns, anc, hs, hc, hr => by
    simp only [shapeKids, cleanKids, rawTextFreeKids, Bool.and_eq_true] at hs hc hr
    simp only [wfKids, Bool.and_eq_true]
    exact ⟨wf_of_shape_node n anc hs.1 hc.1 hr.1, wf_of_shape_kids ns anc hs.2 hc.2 hr.2⟩
end

/-- **structure preserved, partial**: every view shape and every string, except the three decidable
finding classes — a string child of a raw-text element (F-C06-1), U+0000 (F-C06-3), U+000D (F-C06-4). -/
theorem C06_structure_preserved_partial (v : List Node) (hshape : shapeKids [[]] v = true)
    (hraw : rawTextFreeKids v = true) (hclean : cleanKids v = true) :
    parse (toHtml v) = some (structureOf v) :=
  C06_structure_preserved v (wf_of_shape_kids v [[]] hshape hclean hraw)

end Leptos.Html
