import LeptosModel.Proofs.Html
import LeptosModel.Gen.EscapeTables
import LeptosModel.Gen.Elements
/-!
# C06 — server-rendered HTML cannot be altered by the data it contains

`toHtml` is the model of tachys' sync `to_html()`, `parse` the WHATWG subset of Model/Html
(it returns `none` outside the subset, so `parse (toHtml v) = some …` cannot hold vacuously),
`structureOf` the DOM a view denotes.  Strings are `List Char`, unbounded.
-/
namespace Leptos.Html

/-! ## strings in text and attribute positions -/

/-- **text**: for every string without NUL/CR, the escaped text tokenises (data state) to exactly one
text node with content `s` — nothing for the empty string; no tag, comment or reference surprises. -/
theorem C06_text_roundtrip (s : Str) (h : clean s = true) : parse (escapeText s) = some (textTree s) := by
  have := run_escapeText s rootFrame [] (Or.inl (by decide)) h
  unfold parse initState
  rw [this]
  by_cases hs : s = []
  · subst hs; simp [pushStrKids, textTree, finish, rootFrame]
  · rw [show rootFrame.kidsRev = [] from rfl, pushStrKids_fresh s [] hs rfl]
    simp [textTree, hs, finish, rootFrame]

/-- the same inside RCDATA (`<title>`): the frame on top may be any escaping-mode element -/
theorem C06_text_roundtrip_in (s : Str) (h : clean s = true) (f : Frame) (fs : List Frame)
    (hm : modeOfTag f.tag = .data ∨ modeOfTag f.tag = .rcdata) :
    run ⟨.text, f :: fs⟩ (escapeText s) = some ⟨.text, { f with kidsRev := pushStrKids s f.kidsRev } :: fs⟩ :=
  run_escapeText s f fs hm h

/-- **attribute value**: inside `="…"` the escaped value never ends the attribute (the tokenizer is
still in the double-quoted value state after all of it) and what it has decoded is `s`. -/
theorem C06_attr_roundtrip (s : Str) (h : clean s = true) (tg : TagTok) (n : Str) (st : List Frame) :
    run ⟨.attrVal .dq tg n [], st⟩ (escapeAttr s) = some ⟨.attrVal .dq tg n s, st⟩ := by
  simpa using run_escapeAttr s tg n [] st h

/-! ## whole views -/

/-- **structure preserved** (proved part): for every view built from ordinary containers nested
arbitrarily, void elements, child-less raw-text elements and `<title>{s}</title>`, with plain /
boolean / class / style attributes, and for *all* strings free of NUL/CR in every text, attribute,
class and style position, the emitted HTML parses to exactly the structure the view denotes. -/
theorem C06_structure_preserved (v : List Node) (h : wfKids [[]] v = true) :
    parse (toHtml v) = some (structureOf v) := by
  have := run_kids v rootFrame [] .firstChild h (by decide) (by decide)
  unfold parse initState toHtml
  rw [this]
  simp [finish, rootFrame, structureOf]

/-! ## the full statement and why it is false of the code -/

def attrShape : Attr → Bool
  | .plain n _ => attrNameOK n
  | .bool n _ => attrNameOK n
  | .innerHtml _ => false
  | _ => true

def attrsShape (attrs : List Attr) : Bool :=
  attrs.all attrShape && decide (((expectedAttrs attrs).map (·.1)).Nodup)

def titleShape : List Node → Bool
  | [] => true
  | [.text _] => true
  | _ => false

mutual
/-- **view shapes** the property quantifies over: element nesting the tree builder accepts, known
tags, tokenizable pairwise-distinct attribute names — and *no* condition on any string value.
Raw-text elements (`script style textarea noscript`) take string children, `title` one string. -/
def shapeNode (anc : List Str) : Node → Bool
  | .text _ => true
  | .elem tag attrs kids =>
    attrsShape attrs && nestOK tag anc &&
      ((genericOK tag && shapeKids (tag :: anc) kids) || (voidOK tag && kids.isEmpty) ||
       (rawLike tag && !escapeChildren tag && kids.all isTextNode) || (tag = tTitle && titleShape kids))
def shapeKids (anc : List Str) : List Node → Bool
  | [] => true
  | n :: ns => shapeNode anc n && shapeKids anc ns
end

/-- the full property: every shape, every string -/
def C06_structure_preserved_full : Prop :=
  ∀ v : List Node, shapeKids [[]] v = true → parse (toHtml v) = some (structureOf v)

def sDiv : Str := ['d','i','v']
def sImg : Str := ['i','m','g']

/-- `</script><img src=x onerror=alert(1)><script>` -/
def payloadScript : Str :=
  ['<','/','s','c','r','i','p','t','>','<','i','m','g',' ','s','r','c','=','x',' ',
   'o','n','e','r','r','o','r','=','a','l','e','r','t','(','1',')','>','<','s','c','r','i','p','t','>']

/-- F-C06-1: a string child of `<script>` (likewise `style`, `noscript`) is emitted unescaped; it
closes the element and the document gains an `<img onerror=…>` element that no view contains. -/
theorem C06_raw_text_child_witness :
    shapeKids [[]] [.elem tScript [] [.text payloadScript]] = true ∧
    parse (toHtml [.elem tScript [] [.text payloadScript]]) =
      some [.elem tScript [] [],
            .elem sImg [(['s','r','c'], ['x']),
                        (['o','n','e','r','r','o','r'], ['a','l','e','r','t','(','1',')'])] [],
            .elem tScript [] []] ∧
    structureOf [.elem tScript [] [.text payloadScript]] =
      [.elem tScript [] [.text payloadScript]] := by
  decide

/-- `</textarea><img src=x onerror=alert(1)><textarea>` -/
def payloadTextarea : Str :=
  ['<','/','t','e','x','t','a','r','e','a','>','<','i','m','g',' ','s','r','c','=','x',' ',
   'o','n','e','r','r','o','r','=','a','l','e','r','t','(','1',')','>','<','t','e','x','t','a','r','e','a','>']

/-- regression witness, `<textarea>` before hooks/fix-c06-3.patch (`textareaBody false _` = the children
as they are): the string closes the textarea and injects an element; `&lt;` reads back as `<` -/
theorem C06_textarea_old_witness :
    parse (['<','t','e','x','t','a','r','e','a','>'] ++ textareaBody false false payloadTextarea ++
        ['<','/','t','e','x','t','a','r','e','a','>']) =
      some [.elem tTextarea [] [],
            .elem sImg [(['s','r','c'], ['x']),
                        (['o','n','e','r','r','o','r'], ['a','l','e','r','t','(','1',')'])] [],
            .elem tTextarea [] []] ∧
    parse (['<','t','e','x','t','a','r','e','a','>'] ++ textareaBody false false ['&','l','t',';'] ++
        ['<','/','t','e','x','t','a','r','e','a','>']) = some [.elem tTextarea [] [.text ['<']]] := by
  decide

/-- regression witness for hooks/fix-c06-4.patch: without the doubled line feed a value that starts
with one loses it -/
theorem C06_textarea_lf_old_witness :
    parse (['<','t','e','x','t','a','r','e','a','>'] ++ textareaBody true false [cLf, 'a'] ++
        ['<','/','t','e','x','t','a','r','e','a','>']) = some [.elem tTextarea [] [.text ['a']]] := by
  decide

/-- **textarea, repaired** (fix-c06-3 + fix-c06-4): every string without NUL/CR as the child of a
`<textarea>` comes back as exactly that string: it cannot end the element, references in it are not
decoded, a leading line feed survives -/
theorem C06_textarea_child (s : Str) (hs : clean s = true) :
    parse (['<','t','e','x','t','a','r','e','a','>'] ++ textareaBody true true s ++
        ['<','/','t','e','x','t','a','r','e','a','>']) = some [.elem tTextarea [] (textTree s)] := by
  have hopen : run ⟨.text, [rootFrame]⟩ ['<','t','e','x','t','a','r','e','a','>'] =
      some ⟨.textSkipLf, [⟨tTextarea, [], []⟩, rootFrame]⟩ := by
    have h := run_startTag (st := [rootFrame]) (tag := tTextarea) (attrs := []) (by decide) (by decide) (by decide)
    have e : ('<' :: tTextarea ++ attrsHtml [] ++ ['>']) = ['<','t','e','x','t','a','r','e','a','>'] := by decide
    rw [e] at h
    rw [h]
    rfl
  have hbody := run_textareaBody s hs [] rootFrame []
  unfold parse initState
  rw [List.append_assoc, run_append, hopen, Option.bind_some]
  have e2 : ('<' :: '/' :: tTextarea ++ ['>']) = ['<','/','t','e','x','t','a','r','e','a','>'] := by decide
  rw [e2] at hbody
  rw [hbody]
  simp [finish, rootFrame]

/-- the same through `noscript`, `style` and `script` -/
theorem C06_raw_text_child_witness_others :
    parse (toHtml [.elem tNoscript [] [.text ['<','/','n','o','s','c','r','i','p','t','>','<','b','>','x','<','/','b','>','<','n','o','s','c','r','i','p','t','>']]]) =
      some [.elem tNoscript [] [], .elem ['b'] [] [.text ['x']], .elem tNoscript [] []] ∧
    parse (toHtml [.elem tStyle [] [.text ['<','/','s','t','y','l','e','>','<','b','>','x','<','/','b','>','<','s','t','y','l','e','>']]]) =
      some [.elem tStyle [] [], .elem ['b'] [] [.text ['x']], .elem tStyle [] []] ∧
    parse (toHtml [.elem tScript [] [.text ['<','/','s','c','r','i','p','t','>','<','b','>','x','<','/','b','>','<','s','c','r','i','p','t','>']]]) =
      some [.elem tScript [] [], .elem ['b'] [] [.text ['x']], .elem tScript [] []] := by
  decide

/-- F-C06-3: U+0000 is emitted raw in text; a parser drops it (here: outside the subset) -/
theorem C06_nul_witness :
    shapeKids [[]] [.elem sDiv [] [.text ['a', cNul, 'b']]] = true ∧
    toHtml [.elem sDiv [] [.text ['a', cNul, 'b']]] = ['<','d','i','v','>','a', cNul, 'b','<','/','d','i','v','>'] ∧
    parse (toHtml [.elem sDiv [] [.text ['a', cNul, 'b']]]) = none := by
  decide

/-- F-C06-4: U+000D is emitted raw in text and attribute values; a parser turns it into U+000A -/
theorem C06_cr_witness :
    toHtml [.elem sDiv [.plain ['i','d'] ['a', cCr]] []] =
      ['<','d','i','v',' ','i','d','=','"','a', cCr,'"','>','<','/','d','i','v','>'] ∧
    parse (toHtml [.elem sDiv [.plain ['i','d'] ['a', cCr]] []]) = none := by
  decide

theorem C06_structure_preserved_full_false : ¬ C06_structure_preserved_full := by
  intro h
  have := h [.elem tScript [] [.text payloadScript]] C06_raw_text_child_witness.1
  rw [C06_raw_text_child_witness.2.1, C06_raw_text_child_witness.2.2] at this
  revert this
  decide

/-! ## the partial theorem: everything outside the three finding classes -/

theorem attrClean_of (a : Attr) (h1 : attrShape a = true) (h2 : attrValClean a = true) : attrClean a = true := by
  cases a <;> simp_all [attrShape, attrValClean, attrClean]

theorem attrsOK_of (attrs : List Attr) (h1 : attrsShape attrs = true) (h2 : attrs.all attrValClean = true) :
    attrsOK attrs = true := by
  simp only [attrsShape, attrsOK, Bool.and_eq_true, List.all_eq_true] at *
  exact ⟨fun a ha => attrClean_of a (h1.1 a ha) (h2 a ha), h1.2⟩

theorem no_text_all_text (kids : List Node) (h1 : kids.all isTextNode = true) (h2 : kids.any isTextNode = false) :
    kids = [] := by
  cases kids with
  | nil => rfl
  | cons k ks => simp_all

mutual
theorem wf_of_shape_node : (n : Node) → ∀ (anc : List Str), shapeNode anc n = true → cleanNode n = true →
    rawTextFree n = true → wfNode anc n = true
  | .text s, anc, _, hc, _ => by simpa [wfNode, cleanNode] using hc
  | .elem tag attrs kids, anc, hs, hc, hr => by
    simp only [shapeNode, Bool.and_eq_true, Bool.or_eq_true] at hs
    simp only [cleanNode, Bool.and_eq_true] at hc
    simp only [rawTextFree, Bool.and_eq_true, Bool.or_eq_true] at hr
    obtain ⟨⟨hattrs, hnest⟩, hcase⟩ := hs
    have hao := attrsOK_of attrs hattrs hc.1
    simp only [wfNode, Bool.and_eq_true, Bool.or_eq_true, hao, hnest, true_and]
    rcases hcase with ((⟨hg, hk⟩ | hv) | ⟨⟨hraw, hesc⟩, hall⟩) | ⟨ht, hts⟩
    · exact Or.inl (Or.inl (Or.inl ⟨hg, wf_of_shape_kids kids (tag :: anc) hk hc.2 hr.2⟩))
    · exact Or.inl (Or.inl (Or.inr hv))
    · have hesc' : escapeChildren tag = false := by simpa using hesc
      have : kids = [] := by
        apply no_text_all_text kids hall
        rcases hr.1 with h | h
        · rw [hesc'] at h; exact absurd h (by simp)
        · simpa using h
      subst this
      exact Or.inl (Or.inr ⟨hraw, rfl⟩)
    · match kids, hts, hc with
      | [], _, _ =>
        simp only [decide_eq_true_eq] at ht
        subst ht
        exact Or.inl (Or.inr ⟨by decide, rfl⟩)
      | [.text s], _, hc =>
        refine Or.inr ⟨ht, ?_⟩
        simpa [titleKids, cleanKids, cleanNode] using hc.2
theorem wf_of_shape_kids : (ns : List Node) → ∀ (anc : List Str), shapeKids anc ns = true → cleanKids ns = true →
    rawTextFreeKids ns = true → wfKids anc ns = true
  | [], _, _, _, _ => by simp [wfKids]
  | n :: ns, anc, hs, hc, hr => by
    simp only [shapeKids, cleanKids, rawTextFreeKids, Bool.and_eq_true] at hs hc hr
    simp only [wfKids, Bool.and_eq_true]
    exact ⟨wf_of_shape_node n anc hs.1 hc.1 hr.1, wf_of_shape_kids ns anc hs.2 hc.2 hr.2⟩
end

/-- **structure preserved, partial**: every view shape and every string, except the three decidable
finding classes — a string child of a raw-text element (F-C06-1), U+0000 (F-C06-3), U+000D (F-C06-4). -/
theorem C06_structure_preserved_partial (v : List Node) (hshape : shapeKids [[]] v = true)
    (hraw : rawTextFreeKids v = true) (hclean : cleanKids v = true) :
    parse (toHtml v) = some (structureOf v) :=
  C06_structure_preserved v (wf_of_shape_kids v [[]] hshape hclean hraw)


/-! ## typed children and child containers (`VNode`)

`VNode` adds to the embedding: every string *type* in text position (`text`), primitives printed with
`Display` and never escaped (`prim`: `char`, numbers, `bool`, addresses), tuples / arrays / `StaticVec` /
`Fragment` (`seq`), `Vec` with its trailing marker (`vec`), `()` / `Option::None` (`unit`);
`Some`, `Either::Left/Right`, `AnyView` are transparent.  Attribute, class and style value *types*
(`&str String Arc<str> Cow Oco char` numbers, closures, `Option<…>`) all reduce to the `Attr` kinds:
they print `escape_attr` of the `Display` text (`None`: nothing; `class(None)`: an empty class item). -/

/-- **structure preserved, extended views**: as `C06_structure_preserved`, for views that also contain
containers (`seq`, `vec`, `unit`) at any depth and primitives whose text has no `<`, `&`, NUL, CR. -/
theorem C06_view_structure_preserved (v : List VNode) (h : vwfKids [[]] v = true) :
    parse (vToHtml v) = some (vStructureOf v) := by
  have := (run_vkids v rootFrame [] .firstChild h (by decide) (by decide)).1
  unfold parse initState vToHtml
  rw [this]
  simp [finish, rootFrame, vStructureOf]

def vTitleShape : List VNode → Bool
  | [] => true
  | [.text _] => true
  | _ => false

mutual
/-- only strings, primitives and containers (what may stand inside a raw-text element) -/
def vLeafOnly : VNode → Bool
  | .elem .. => false
  | .island .. => false
  | .islandChildren _ => false
  | .resetPos => false
  | .seq ks => vLeafOnlyKids ks
  | .vec ks => vLeafOnlyKids ks
  | _ => true
def vLeafOnlyKids : List VNode → Bool
  | [] => true
  | n :: ns => vLeafOnly n && vLeafOnlyKids ns
end

mutual
/-- view shapes of the extended embedding (no condition on any string) -/
def vShapeNode (anc : List Str) : VNode → Bool
  | .text _ => true
  | .prim s => s != []
  | .elem tag attrs kids =>
    attrsShape attrs && nestOK tag anc &&
      ((genericOK tag && vShapeKids (tag :: anc) kids) || (voidOK tag && kids.isEmpty) ||
       (rawLike tag && !escapeChildren tag && vLeafOnlyKids kids) || (tag = tTitle && vTitleShape kids))
  | .seq ks => vShapeKids anc ks
  | .vec ks => vShapeKids anc ks
  | .unit => true
  | .island c _ ks => compOK c && vShapeKids (tIsland :: anc) ks     -- the component name is program text
  | .islandChildren ks => vShapeKids (tIslandChildren :: anc) ks
  | .resetPos => false
def vShapeKids (anc : List Str) : List VNode → Bool
  | [] => true
  | n :: ns => vShapeNode anc n && vShapeKids anc ns
end

mutual
/-- no NUL/CR in any string; primitives additionally without `<` and `&` (only a `char` can have one) -/
def vCleanNode : VNode → Bool
  | .text s => clean s
  | .prim s => titleInert s || (primEscaped && clean s)
  | .elem _ attrs kids => attrs.all attrValClean && vCleanKids kids
  | .seq ks => vCleanKids ks
  | .vec ks => vCleanKids ks
  | .unit => true
  | .island _ p ks => clean p && vCleanKids ks
  | .islandChildren ks => vCleanKids ks
  | .resetPos => true
def vCleanKids : List VNode → Bool
  | [] => true
  | n :: ns => vCleanNode n && vCleanKids ns
end

mutual
theorem vBlank_of_noText : (n : VNode) → vLeafOnly n = true → vHasText n = false → vBlank false n = true
  | .text _, _, h => by simp [vHasText] at h
  | .prim _, _, h => by simp [vHasText] at h
  | .elem .., h, _ => by simp [vLeafOnly] at h
  | .island .., h, _ => by simp [vLeafOnly] at h
  | .islandChildren _, h, _ => by simp [vLeafOnly] at h
  | .resetPos, h, _ => by simp [vLeafOnly] at h
  | .seq ks, h1, h2 => by
    simpa [vBlank] using vBlankKids_of_noText ks (by simpa [vLeafOnly] using h1) (by simpa [vHasText] using h2)
  | .vec ks, h1, h2 => by
    simpa [vBlank] using vBlankKids_of_noText ks (by simpa [vLeafOnly] using h1) (by simpa [vHasText] using h2)
  | .unit, _, _ => by simp [vBlank]
theorem vBlankKids_of_noText : (ns : List VNode) → vLeafOnlyKids ns = true → vHasTextKids ns = false →
    vBlankKids false ns = true
  | [], _, _ => by simp [vBlankKids]
  | n :: ns, h1, h2 => by
    simp only [vLeafOnlyKids, Bool.and_eq_true] at h1
    simp only [vHasTextKids, Bool.or_eq_false_iff] at h2
    simp [vBlankKids, vBlank_of_noText n h1.1 h2.1, vBlankKids_of_noText ns h1.2 h2.2]
end


mutual
theorem vwf_of_shape_node : (n : VNode) → ∀ (anc : List Str), vShapeNode anc n = true → vCleanNode n = true →
    vRawTextFree n = true → vwfNode anc n = true
  | .text s, _, _, hc, _ => by simpa [vwfNode, vCleanNode] using hc
  | .prim s, _, hs, hc, _ => by
    simp only [vShapeNode] at hs
    simp only [vCleanNode] at hc
    simp [vwfNode, hs, hc]
  | .elem tag attrs kids, anc, hs, hc, hr => by
    simp only [vShapeNode, Bool.and_eq_true, Bool.or_eq_true] at hs
    simp only [vCleanNode, Bool.and_eq_true] at hc
    simp only [vRawTextFree, Bool.and_eq_true, Bool.or_eq_true] at hr
    obtain ⟨⟨hattrs, hnest⟩, hcase⟩ := hs
    have hao := attrsOK_of attrs hattrs hc.1
    simp only [vwfNode, Bool.and_eq_true, Bool.or_eq_true, hao, hnest, true_and]
    rcases hcase with ((⟨hg, hk⟩ | hv) | ⟨⟨hraw, hesc⟩, hleaf⟩) | ⟨ht, hts⟩
    · exact Or.inl (Or.inl (Or.inl (Or.inl ⟨hg, vwf_of_shape_kids kids (tag :: anc) hk hc.2 hr.2⟩)))
    · exact Or.inl (Or.inl (Or.inl (Or.inr hv)))
    · have hesc' : escapeChildren tag = false := by simpa using hesc
      rcases hr.1 with (h | h) | h
      · rw [hesc'] at h; exact absurd h (by simp)
      · have hnt : vHasTextKids kids = false := by simpa using h
        refine Or.inl (Or.inl (Or.inr ⟨hraw, ?_⟩))
        rw [hesc']
        exact vBlankKids_of_noText kids hleaf hnt
      · -- the single string of a repaired <textarea>
        match kids, h, hc with
        | [.text s], h, hc =>
          simp only [vTextareaOneText, Bool.and_eq_true, decide_eq_true_eq] at h
          refine Or.inr ⟨⟨⟨by simpa using h.1.1, h.1.2⟩, h.2⟩, ?_⟩
          simpa [vTitleKids, vCleanKids, vCleanNode] using hc.2
    · match kids, hts, hc with
      | [], _, _ =>
        simp only [decide_eq_true_eq] at ht
        subst ht
        exact Or.inl (Or.inl (Or.inr ⟨by decide, by simp [vBlankKids]⟩))
      | [.text s], _, hc =>
        refine Or.inl (Or.inr ⟨ht, ?_⟩)
        simpa [vTitleKids, vCleanKids, vCleanNode] using hc.2
  | .seq ks, anc, hs, hc, hr => by
    simpa [vwfNode] using vwf_of_shape_kids ks anc (by simpa [vShapeNode] using hs)
      (by simpa [vCleanNode] using hc) (by simpa [vRawTextFree] using hr)
  | .vec ks, anc, hs, hc, hr => by
    simpa [vwfNode] using vwf_of_shape_kids ks anc (by simpa [vShapeNode] using hs)
      (by simpa [vCleanNode] using hc) (by simpa [vRawTextFree] using hr)
  | .unit, _, _, _, _ => by simp [vwfNode]
  | .resetPos, _, hs, _, _ => by simp [vShapeNode] at hs
  | .island c p ks, anc, hs, hc, hr => by
    simp only [vShapeNode, Bool.and_eq_true] at hs
    simp only [vCleanNode, Bool.and_eq_true] at hc
    simp only [vwfNode, Bool.and_eq_true]
    exact ⟨⟨hs.1, hc.1⟩, vwf_of_shape_kids ks (tIsland :: anc) hs.2 hc.2 (by simpa [vRawTextFree] using hr)⟩
  | .islandChildren ks, anc, hs, hc, hr => by
    simpa [vwfNode] using vwf_of_shape_kids ks (tIslandChildren :: anc) (by simpa [vShapeNode] using hs)
      (by simpa [vCleanNode] using hc) (by simpa [vRawTextFree] using hr)
theorem vwf_of_shape_kids : (ns : List VNode) → ∀ (anc : List Str), vShapeKids anc ns = true → vCleanKids ns = true →
    vRawTextFreeKids ns = true → vwfKids anc ns = true
  | [], _, _, _, _ => by simp [vwfKids]
  | n :: ns, anc, hs, hc, hr => by
    simp only [vShapeKids, vCleanKids, vRawTextFreeKids, Bool.and_eq_true] at hs hc hr
    simp only [vwfKids, Bool.and_eq_true]
    exact ⟨vwf_of_shape_node n anc hs.1 hc.1 hr.1, vwf_of_shape_kids ns anc hs.2 hc.2 hr.2⟩
end

/-- **structure preserved, extended views, partial**: every shape with containers at any depth and
every string, except a string directly inside a raw-text element (F-C06-1; through containers too),
NUL / CR (F-C06-3/4) and — correspondence-only, not a finding — a `char` child `<` or `&`. -/
theorem C06_view_structure_preserved_partial (v : List VNode) (hshape : vShapeKids [[]] v = true)
    (hraw : vRawTextFreeKids v = true) (hclean : vCleanKids v = true) :
    parse (vToHtml v) = some (vStructureOf v) :=
  C06_view_structure_preserved v (vwf_of_shape_kids v [[]] hshape hclean hraw)

/-- **the extended full statement is refuted the same way** (a `Vec<String>` child of `<script>`) -/
theorem C06_view_raw_text_child_witness :
    vShapeKids [[]] [.elem tScript [] [.vec [.text payloadScript]]] = true ∧
    parse (vToHtml [.elem tScript [] [.vec [.text payloadScript]]]) =
      some [.elem tScript [] [],
            .elem sImg [(['s','r','c'], ['x']),
                        (['o','n','e','r','r','o','r'], ['a','l','e','r','t','(','1',')'])] [],
            .elem tScript [] []] := by
  decide

/-- the model prints the containers as tachys does: `Vec` ends in a marker, adjacent strings inside and
across containers are separated by markers, `None` is a marker, arrays/tuples add nothing -/
example : vToHtml [.elem ['p'] [] [.vec [.text ['a'], .text ['<']], .seq [.text ['b'], .prim ['7']], .unit, .text ['c']]] =
    ['<','p','>','a','<','!','>','&','l','t',';','<','!','>','b','<','!','>','7','<','!','>','c','<','/','p','>'] := by
  decide

example : vwfKids [[]] [.elem ['p'] [] [.vec [.text ['a'], .text ['<','/','p','>']], .seq [.text ['b'], .prim ['7']], .unit, .text ['c']]] = true := by
  decide

/-- a `char` child `<` or `&` between marker-separated siblings denotes itself whether it is printed raw
(the code before hooks/fix-c06-5.patch: malformed HTML the standard recovers from) or escaped (after it) -/
example : parse (vToHtml [.elem sDiv [] [.prim ['<'], .text ['b'], .prim ['&']]]) =
      some (vStructureOf [.elem sDiv [] [.prim ['<'], .text ['b'], .prim ['&']]]) := by
  decide

/-- F-C06-7 (primitives printed raw, `primEscaped = false` spelled out as the literal HTML): in the
in-order stream a pending `<Suspense>` leaves no `<!>` between its last child and the sibling that
follows, so the `char` `<` and the *escaped* string after it form a tag with an event handler -/
theorem C06_prim_unescaped_witness :
    parse ['<','p','>','<','i','m','g',' ','o','n','e','r','r','o','r','=','a',' ','x','=','<','/','p','>'] ≠
      some [.elem ['p'] [] [.text ['<','i','m','g',' ','o','n','e','r','r','o','r','=','a',' ','x','=']]] ∧
    vKidsHtml true .firstChild [.seq [.text ['a']], .resetPos, .text ['b']] = ['a','b'] := by
  decide

/-- with primitives escaped (fix-c06-5) the same shape is inert: no marker is needed for safety -/
example : parse (['<','p','>'] ++ escapeText ['<'] ++ escapeText ['i','m','g',' ','x','='] ++ ['<','/','p','>']) =
    some [.elem ['p'] [] [.text ['<','i','m','g',' ','x','=']]] := by
  decide


/-! ## islands: attributes written by hand (html/islands.rs `Island::open_tag`) -/

/-- the serialized props of an island arrive as exactly that string, whatever it contains (quotes of
both kinds, `&`, `<`, `>`); instance of `C06_view_structure_preserved` kept as a named statement -/
theorem C06_island_props (c p : Str) (ks : List VNode) (hc : compOK c = true) (hp : clean p = true)
    (hk : vwfKids [tIsland, []] ks = true) :
    parse (vToHtml [.island c p ks]) =
      some [.elem tIsland (islandAttrs c p) (vStructKids .firstChild ks)] := by
  have := C06_view_structure_preserved [.island c p ks] (by simp [vwfKids, vwfNode, hc, hp, hk])
  simpa [vStructureOf, vStructKids, vStruct] using this

example : parse (vToHtml [.island ['C'] ['{','"','a','"',':','"','\'','<','/','&','"','}'] [.text ['x']]]) =
    some [.elem tIsland [(sDataComponent, ['C']), (sDataProps, ['{','"','a','"',':','"','\'','<','/','&','"','}'])]
      [.text ['x']]] := by decide

/-- `position` is passed through an island: a string before it puts the marker *inside* -/
example : vToHtml [.text ['a'], .island ['C'] [] [.text ['b']], .text ['c']] =
    ['a'] ++ islandOpen ['C'] [] ++ ['<','!','>','b','<','/'] ++ tIsland ++ ['>','<','!','>','c'] := by decide

/-! ## leptos components that pass `escape` on: transparent for escaping -/

/-- **wrappers are transparent** (`<Show>`, `<ErrorBoundary>` incl. its fallback and the error messages,
`<For>`, `<Suspense>` / `<Transition>` incl. fallback, `<Await>`): whatever branch is shown — first paint or
settled document — the HTML of the view they resolve to parses, modulo sibling markers, to exactly that
view's structure; every string inside (error messages, fallback text, rows, awaited data) is a string of
the resolved view, so `C06_view_structure_preserved` speaks about it. -/
theorem C06_wrappers_transparent (final : Bool) (msgs : Str) (w : List WNode)
    (h : vwfKids [[]] (resolveKids final msgs w) = true) :
    (parse (vToHtml (resolveKids final msgs w))).map normList =
      some (normList (vStructureOf (resolveKids final msgs w))) := by
  rw [C06_view_structure_preserved _ h]
  rfl

/-- an error message with markup in it, shown by the fallback of its boundary next to a text -/
example : (parse (vToHtml (resolveKids true [] [.elem ['p'] [] [.leaf (.text ['a']),
      .boundary [.err ['<','&']] [.errMsgs]]]))).map normList =
    some [.elem ['p'] [] [.text ['a','<','&']]] := by
  decide

/-! ## the element table: `genericOK` is just `kind = generic` -/

theorem contains_dash_of_custom {t : Str} (h : isCustomTag t = true) : t.contains '-' = true := by
  cases t with
  | nil => simp [isCustomTag] at h
  | cons c cs =>
    simp only [isCustomTag, Bool.and_eq_true] at h
    simp only [List.contains_cons, Bool.or_eq_true]
    exact Or.inr h.2

theorem tagCharsOK_of_custom {t : Str} (h : isCustomTag t = true) : tagCharsOK t = true := by
  cases t with
  | nil => simp [isCustomTag] at h
  | cons c cs =>
    simp only [isCustomTag, Bool.and_eq_true] at h
    simp [tagCharsOK, h.1.1, h.1.2]

/-- the side conditions of `genericOK` follow from the parser's table: `genericOK t ↔ kind t = generic` -/
theorem genericOK_of_kind {t : Str} (h : kind t = .generic) : genericOK t = true := by
  have hcases : genericTags.contains t = true ∨ isCustomTag t = true := by
    unfold kind at h
    split at h; · cases h
    split at h; · cases h
    split at h; · cases h
    split at h; · cases h
    split at h
    · next hh => simpa using hh
    · cases h
  simp only [genericOK, h, decide_true, Bool.true_and, Bool.and_eq_true, Bool.not_eq_true', bne_iff_ne, ne_eq]
  rcases hcases with hg | hc
  · have key : ∀ u ∈ genericTags, isVoid u = false ∧ escapeChildren u = true ∧ tagCharsOK u = true ∧ u ≠ tTextarea := by
      decide
    have hm : t ∈ genericTags := by simpa using hg
    obtain ⟨a, b, c, d⟩ := key t hm
    exact ⟨⟨⟨a, b⟩, c⟩, d⟩
  · have hd := contains_dash_of_custom hc
    have nv : ∀ u ∈ voidTags, u.contains '-' = false := by decide
    have nr : ∀ u ∈ rawTags, u.contains '-' = false := by decide
    refine ⟨⟨⟨?_, ?_⟩, tagCharsOK_of_custom hc⟩, ?_⟩
    · cases hv : isVoid t with
      | false => rfl
      | true =>
        have : t ∈ voidTags := by simpa [isVoid] using hv
        rw [nv t this] at hd; cases hd
    · cases hr : escapeChildren t with
      | true => rfl
      | false =>
        have : t ∈ rawTags := by simpa [escapeChildren] using hr
        rw [nr t this] at hd; cases hd
    · intro e; subst e; revert hd; decide

/-! ## document head (leptos_meta) -/

theorem run_headMarker {f : Frame} {fs : List Frame} (hm0 : modeOfTag f.tag = .data) :
    run ⟨.text, f :: fs⟩ sHeadMarker =
      some ⟨.text, { f with kidsRev := .comment ['H','E','A','D'] :: f.kidsRev } :: fs⟩ := by
  have hm : curMode (f :: fs) = .data := hm0
  simp [sHeadMarker, run, step, stepText, hm, cCr, cNul, stepComment, stepCommentEndDash, stepCommentEnd,
    emitComment, pushTree]

def allElems (ns : List Node) : Bool := ns.all (fun n => !isTextNode n)

theorem kidsHtml_elems (ns : List Node) (h : allElems ns = true) (pos : Pos) :
    kidsHtml false pos ns = kidsHtml true pos ns := by
  induction ns generalizing pos with
  | nil => simp [kidsHtml]
  | cons n r ih =>
    simp only [allElems, List.all_cons, Bool.and_eq_true] at h
    cases n with
    | text s => simp [isTextNode] at h
    | elem tag attrs kids => simp [kidsHtml, nodeHtml, ih h.2]

/-- the title element as `inject_meta_context` writes it: escaped text inside RCDATA -/
theorem run_titleEsc (t : Str) (ht : clean t = true) (f : Frame) (fs : List Frame)
    (hm : modeOfTag f.tag = .data) (hn : nestOK tTitle ((f :: fs).map (·.tag)) = true) :
    run ⟨.text, f :: fs⟩ ('<' :: tTitle ++ '>' :: escapeText t ++ '<' :: '/' :: tTitle ++ ['>']) =
      some ⟨.text, { f with kidsRev := .elem tTitle [] (textTree t) :: f.kidsRev } :: fs⟩ := by
  have hraw : rawLike tTitle = true := by decide
  have hopen := run_startTag (st := f :: fs) (tag := tTitle) (attrs := []) hm (by decide) (by decide)
  have hstart : emitStart ⟨tTitle, expectedAttrs []⟩ false (f :: fs) =
      some ⟨.text, ⟨tTitle, [], []⟩ :: f :: fs⟩ := by
    have hn' : nestOK tTitle (f.tag :: List.map (fun x => x.tag) fs) = true := by simpa using hn
    simp only [emitStart]
    simp [hn', show tTitle ≠ tTextarea from by decide, show kind tTitle = .rcdata from by decide,
      expectedAttrs, plainFlat, classBuf, styleBuf]
  have hbody := run_escapeText t ⟨tTitle, [], []⟩ (f :: fs)
    (Or.inr (show modeOfTag tTitle = .rcdata from by decide)) ht
  have hclose := run_rawEnd hraw .text (Or.inl rfl) ⟨tTitle, [], pushStrKids t []⟩ f fs rfl
  have e : ('<' :: tTitle ++ '>' :: escapeText t ++ '<' :: '/' :: tTitle ++ ['>']) =
      ('<' :: tTitle ++ attrsHtml [] ++ ['>']) ++ (escapeText t ++ ('<' :: '/' :: tTitle ++ ['>'])) := by
    simp [attrsHtml, plainPart, classBuf, styleBuf]
  rw [e, run_append, hopen, hstart, Option.bind_some, run_append, hbody, Option.bind_some, hclose]
  by_cases h : t = []
  · subst h; simp [pushStrKids, textTree]
  · simp [pushStrKids_fresh t [] h rfl, textTree, h]

/-- **head** (repaired code): what `inject_meta_context` inserts parses to the title element holding
exactly the title text, the marker, and the registered `<meta>` tags with exactly their attribute
values — for *every* title and all meta strings; the only hypothesis on strings is the absence of
NUL / CR (F-C06-3/4, which no HTML serialisation can carry). -/
theorem C06_head (title : Option Str) (metas : List Node)
    (ht : ∀ t, title = some t → clean t = true)
    (hm : wfKids [[]] metas = true) (he : allElems metas = true) :
    parse (headHtml title metas) = some (headStructure title metas) := by
  have hmetas : ∀ (k : List Tree), headIsText k = false →
      run ⟨.text, [{ rootFrame with kidsRev := k }]⟩ (kidsHtml false .nextChild metas) =
        some ⟨.text, [{ rootFrame with kidsRev := (structKids .nextChild metas).reverse ++ k }]⟩ := by
    intro k hk
    rw [kidsHtml_elems metas he]
    exact run_kids metas { rootFrame with kidsRev := k } [] .nextChild hm
      (show modeOfTag rootFrame.tag = .data from by decide) (by simp [hk])
  unfold parse initState headHtml headStructure
  cases title with
  | none =>
    simp only [List.nil_append]
    rw [run_append, run_headMarker (show modeOfTag rootFrame.tag = .data from by decide), Option.bind_some,
      hmetas _ rfl]
    simp [finish, rootFrame]
  | some t =>
    have h1 := run_titleEsc t (ht t rfl) rootFrame [] (by decide) (by decide)
    simp only
    have h2 := run_headMarker
      (f := ⟨rootFrame.tag, rootFrame.attrs, .elem tTitle [] (textTree t) :: rootFrame.kidsRev⟩) (fs := [])
      (show modeOfTag rootFrame.tag = .data from by decide)
    rw [run_append, run_append, h1, Option.bind_some, h2, Option.bind_some]
    rw [hmetas _ rfl]
    simp [finish, rootFrame]

/-- the statement over literally every string stays false only through NUL / CR -/
def C06_head_full : Prop :=
  ∀ (title : Option Str) (metas : List Node), shapeKids [[]] metas = true → allElems metas = true →
    parse (headHtml title metas) = some (headStructure title metas)

theorem C06_head_full_false : ¬ C06_head_full := by
  intro h
  have := h (some ['a', cNul]) [] (by decide) (by decide)
  revert this
  decide

/-- `</title><script>alert(1)</script>` -/
def payloadTitle : Str :=
  ['<','/','t','i','t','l','e','>','<','s','c','r','i','p','t','>','a','l','e','r','t','(','1',')',
   '<','/','s','c','r','i','p','t','>']

/-- the repaired code on the former witness: the title is the payload, nothing else appears -/
theorem C06_title_fixed :
    parse (headHtml (some payloadTitle) []) =
      some [.elem tTitle [] [.text payloadTitle], .comment ['H','E','A','D']] := by
  have h := C06_head (some payloadTitle) [] (fun t ht => by cases ht; decide) (by decide) (by decide)
  rw [h]
  decide

/-! ### regression witnesses: the code before `fix: escape the document title …` (F-C06-2) -/

/-- the old code, for every title and every meta string -/
def C06_head_old_full : Prop :=
  ∀ (title : Option Str) (metas : List Node), shapeKids [[]] metas = true → allElems metas = true →
    parse (headHtmlOld title metas) = some (headStructure title metas)

/-- F-C06-2 (old code): the title was inserted unescaped: it ended the title element and a script
element appeared (the trailing `</title>` is then a stray end tag: outside the subset, `none`); with
a balanced payload the injected element shows up in the parse; `&lt;` read back as `<`. -/
theorem C06_title_old_witness :
    headHtmlOld (some payloadTitle) [] =
      ['<','t','i','t','l','e','>'] ++ payloadTitle ++ ['<','/','t','i','t','l','e','>'] ++ sHeadMarker ∧
    parse (headHtmlOld (some payloadTitle) []) = none ∧
    parse (headHtmlOld (some (payloadTitle ++ ['<','t','i','t','l','e','>'])) []) =
      some [.elem tTitle [] [], .elem tScript [] [.text ['a','l','e','r','t','(','1',')']],
            .elem tTitle [] [], .comment ['H','E','A','D']] ∧
    parse (headHtmlOld (some ['&','l','t',';']) []) =
      some [.elem tTitle [] [.text ['<']], .comment ['H','E','A','D']] := by
  decide

theorem C06_head_old_full_false : ¬ C06_head_old_full := by
  intro h
  have := h (some payloadTitle) [] (by decide) (by decide)
  rw [C06_title_old_witness.2.1] at this
  cases this

/-! ## the whole first chunk: `<Html/>` / `<Body/>` attributes, title × formatter, head tags -/

/-- an attribute string sent by `<Html/>` / `<Body/>` gives, after any tag name, exactly the intended
attributes — for all values; instance of `C06_structure_preserved` on a probe element -/
theorem C06_doc_attrs (attrs : List Attr) (h : attrsOK attrs = true) :
    parse (attrsProbe attrs) = some [.elem tProbe (expectedAttrs attrs) []] := by
  have hw : wfKids [[]] [.elem tProbe attrs []] = true := by
    simp only [wfKids, wfNode, h, Bool.true_and, Bool.and_true]
    decide
  have := C06_structure_preserved [.elem tProbe attrs []] hw
  have e : toHtml [.elem tProbe attrs []] = attrsProbe attrs := by
    simp [toHtml, kidsHtml, nodeHtml, attrsProbe, show isVoid tProbe = false from by decide,
      show escapeChildren tProbe = true from by decide, innerBuf_nil attrs (by
        simp only [attrsOK, Bool.and_eq_true] at h; exact h.1)]
  rw [e] at this
  simpa [structureOf, structKids, structNode, show isVoid tProbe = false from by decide,
    show escapeChildren tProbe = true from by decide, innerBuf_nil attrs (by
      simp only [attrsOK, Bool.and_eq_true] at h; exact h.1)] using this

/-- **document**: with `titleAsString` as the title (text of the innermost `<Title/>` through the
innermost formatter — whatever text, prefix and suffix), any registered head tags and any `<Html/>` /
`<Body/>` attributes, every inserted piece parses to exactly what was meant -/
theorem C06_doc (htmlAttrs bodyAttrs : List Attr) (texts : List Str) (fmts : List (Str × Str))
    (metas : List Node)
    (hh : attrsOK htmlAttrs = true) (hb : attrsOK bodyAttrs = true)
    (ht : ∀ t, titleAsString texts fmts = some t → clean t = true)
    (hm : wfKids [[]] metas = true) (he : allElems metas = true) :
    parse (attrsProbe htmlAttrs) = some [.elem tProbe (expectedAttrs htmlAttrs) []] ∧
    parse (headHtml (titleAsString texts fmts) metas) = some (headStructure (titleAsString texts fmts) metas) ∧
    parse (attrsProbe bodyAttrs) = some [.elem tProbe (expectedAttrs bodyAttrs) []] :=
  ⟨C06_doc_attrs htmlAttrs hh, C06_head _ metas ht hm he, C06_doc_attrs bodyAttrs hb⟩

/-- a formatter that adds markup-looking text: the final string is the title text -/
example : titleAsString [['H','o','m','e']] [([], [' ','|',' ','<','/','t','i','t','l','e','>'])] =
    some ['H','o','m','e',' ','|',' ','<','/','t','i','t','l','e','>'] := by decide

/-! ### where the `<Html/>` / `<Body/>` attribute strings land -/

/-- what is meant: every piece at its own place in the shell -/
def docIntended (hs : Str) (title : Option Str) (metas : List Node) (bs : Str) : Str :=
  sShellOpen ++ hs ++ sShellHead ++ headHtml title metas ++ sShellBody ++ bs ++ sShellEnd

/-- with the `<body` search restricted to the part behind the head (hooks/fix-c06-2.patch) the code
builds exactly the intended chunk, whatever the head contains -/
theorem C06_doc_placement_fixed (hs bs : Str) (title : Option Str) (metas : List Node) :
    docHtmlImpl true hs title metas bs = docIntended hs title metas bs := by
  simp [docHtmlImpl, docIntended, insertAfterFirst, sShellPre, sShellPost, sLtHtml, sLtBody, sShellOpen,
    sShellHead, sShellBody, sShellEnd, List.isPrefixOf]

/-- `if (a<body.length) f()` as the content of a `<Script/>` -/
def payloadBodyScript : List Node :=
  [.elem tScript [] [.text ['i','f',' ','(','a','<','b','o','d','y','.','l','e','n','g','t','h',')',' ','f','(',')']]]

/-- F-C06-5 (code as it is): `modified_chunk.find("<body")` searches the whole chunk, head included, so
harmless script text containing `<body` receives the `<Body/>` attributes: the script is corrupted and
`<body>` stays bare -/
theorem C06_body_attrs_witness :
    docHtmlImpl false [] none payloadBodyScript [' ','c','l','a','s','s','=','"','d','"'] =
      sShellPre ++ sHeadMarker ++
        ['<','s','c','r','i','p','t','>','i','f',' ','(','a','<','b','o','d','y',' ','c','l','a','s','s','=','"','d','"',
         '.','l','e','n','g','t','h',')',' ','f','(',')','<','/','s','c','r','i','p','t','>'] ++ sShellPost ∧
    docHtmlImpl false [] none payloadBodyScript [' ','c','l','a','s','s','=','"','d','"'] ≠
      docIntended [] none payloadBodyScript [' ','c','l','a','s','s','=','"','d','"'] := by
  decide

/-- the full placement statement for the code as it is -/
def C06_doc_placement_full : Prop :=
  ∀ (hs bs : Str) (title : Option Str) (metas : List Node),
    docHtmlImpl false hs title metas bs = docIntended hs title metas bs

theorem C06_doc_placement_full_false : ¬ C06_doc_placement_full := fun h =>
  C06_body_attrs_witness.2 (h _ _ _ _)

/-! ## tables regenerated from the source (extract.py EscapeTables, Elements) -/

theorem C06_table_text : Leptos.Gen.EscapeTables.escapeText = textTable := by decide
theorem C06_table_attr : Leptos.Gen.EscapeTables.escapeDoubleQuote = attrTable := by decide

/-- every entity the text escaper writes decodes back to the character it replaced -/
theorem C06_table_text_decodes :
    ∀ r ∈ Leptos.Gen.EscapeTables.escapeText, parse r.2 = some [.text [r.1]] := by decide

/-- every entity the attribute escaper writes decodes back inside a double-quoted value -/
theorem C06_table_attr_decodes :
    ∀ r ∈ Leptos.Gen.EscapeTables.escapeDoubleQuote,
      parse (['<','b',' ','x','=','"'] ++ r.2 ++ ['"','>','<','/','b','>']) =
        some [.elem ['b'] [(['x'], [r.1])] []] := by decide

/-- the model's `isVoid` / `escapeChildren` agree with every row of elements.rs -/
theorem C06_table_elements :
    ∀ r ∈ Leptos.Gen.Elements.rows, isVoid r.1 = r.2.1 ∧ escapeChildren r.1 = r.2.2 := by decide

/-- and name no element elements.rs does not have -/
theorem C06_table_elements_complete :
    (∀ t ∈ voidTags, (t, true, true) ∈ Leptos.Gen.Elements.rows) ∧
    (∀ t ∈ rawTags, (t, false, false) ∈ Leptos.Gen.Elements.rows) := by decide

/-- the parser's void elements (from the standard) are void for tachys as well, and the raw-text
content models coincide: tachys skips escaping exactly where the parser does not decode references
or where RCDATA would (textarea) -/
theorem C06_table_parser_agrees :
    (∀ t ∈ pVoidTags, isVoid t = true) ∧
    (∀ r ∈ Leptos.Gen.Elements.rows, r.2.2 = false → kind r.1 = .rcdata ∨ kind r.1 = .rawtext ∨ kind r.1 = .script) := by
  decide

/-- the `view!` macro's own no-escape list names exactly the elements tachys does not escape
(since `fix: … noscript …` in leptos_macro, C18); its self-closing list still has one extra row,
`param`, which tachys does not know -/
theorem C06_table_macro_lists :
    (∀ r ∈ Leptos.Gen.Elements.rows, Leptos.Gen.Elements.macroNoEscape.contains r.1 = !r.2.2) ∧
    (∀ t ∈ Leptos.Gen.Elements.macroNoEscape, escapeChildren t = false) ∧
    ['p','a','r','a','m'] ∈ Leptos.Gen.Elements.macroSelfClosing ∧
    ['p','a','r','a','m'] ∉ Leptos.Gen.Elements.rows.map (·.1) := by decide

/-! ## non-vacuity -/

/-- hostile strings in every position satisfy the hypotheses of the proved theorem … -/
example : wfKids [[]]
    [.elem sDiv [.plain ['i','d'] ['"','>','<','s','c','r','i','p','t','>'], .cls ['a','"',' ','b'],
                 .styleKV ['c','o','l','o','r'] ['<','/','s','t','y','l','e','>'], .bool ['h','i','d','d','e','n'] true]
       [.text ['<','/','d','i','v','>','<','!','-','-'], .text [], .text [']',']','>','&','a','m','p',';'],
        .elem ['i','m','g'] [.plain ['a','l','t'] ['\'','`','=']] [],
        .elem tTitle [] [.text ['<','/','t','i','t','l','e','>']],
        .elem ['x','-','f','o','o'] [] [.elem ['p'] [] [.text ['&','#','x','3','c',';']]]]] = true := by decide

/-- … and the conclusion holds on them by evaluation as well -/
example : parse (toHtml [.elem sDiv [.plain ['i','d'] ['"','>','<']] [.text ['<','/','d','i','v','>'], .text ['&']]]) =
    some [.elem sDiv [(['i','d'], ['"','>','<'])] [.text ['<','/','d','i','v','>'], .comment [], .text ['&']]] := by
  decide

example : clean ['<','&','>','"','\'','/','=','`'] = true := by decide

/-- hypotheses of the partial theorems are satisfiable with raw-text elements present -/
example : shapeKids [[]] [.elem tScript [.plain ['s','r','c'] ['a','&','b']] [], .elem tTextarea [] []] = true ∧
    rawTextFreeKids [.elem tScript [.plain ['s','r','c'] ['a','&','b']] [], .elem tTextarea [] []] = true ∧
    cleanKids [.elem tScript [.plain ['s','r','c'] ['a','&','b']] [], .elem tTextarea [] []] = true := by decide


example : wfKids [[]] [.elem ['m','e','t','a'] [.plain ['n','a','m','e'] ['"','>'], .plain ['c','o','n','t','e','n','t'] ['<']] []] = true ∧
    allElems [.elem ['m','e','t','a'] [.plain ['n','a','m','e'] ['"','>'], .plain ['c','o','n','t','e','n','t'] ['<']] []] = true := by
  decide

end Leptos.Html
