import LeptosModel.Model.Reactive
import LeptosModel.Proofs.ReactiveTop
/-!
# C09 — computations run only when something they read has changed

The ghost event `Ev.unjust id` is emitted by the model (`noteRun`) exactly when a body
is invoked although it has run before and no tracked input of its previous run has a
new version (signals: written since; memos: recomputed to an unequal value since).
The property says: no reachable history contains such an event.
-/
namespace Leptos.Reactive

def unjustIn (log : List Ev) : Bool := log.any fun e => match e with | .unjust _ => true | _ => false

/-- **full statement**: for every well-formed program and every history of writes, reads and
executor polls, no memo or effect body runs without justification. -/
def C09_run_justified_full : Prop :=
  ∀ (p : Prog) (ops : List Op), WF p = true → unjustIn (run p ops).log = false

/-- F-C09-1: `m1 = s`, `m2 = s + m1`, an effect reading `m2` then `m1`; after the initial run,
one write makes the effect body run twice with identical inputs the second time. -/
def c09Prog : Prog :=
  [.sig 0, .memo (.rd true 0), .memo (.add (.rd true 0) (.rd true 1)),
   .eff (.add (.rd true 2) (.rd true 1))]

def c09Ops : List Op := [.idle, .set 0 1, .idle]

theorem C09_effect_double_run_witness :
    WF c09Prog = true ∧ unjustIn (run c09Prog c09Ops).log = true ∧
    ((run c09Prog c09Ops).get 3).runs = 3 := by decide +kernel

theorem C09_run_justified_full_false : ¬ C09_run_justified_full := by
  intro h
  have h1 := h c09Prog c09Ops (by decide +kernel)
  have h2 := C09_effect_double_run_witness.2.1
  rw [h1] at h2
  exact absurd h2 (by decide)

/-! ## memos: every run is justified

For programs without effects (signals and memos only) and tracked reads only, no memo body
ever runs unless it has never run or one of the inputs tracked by its previous run has a new
version.  (`bodiesTracked` is the same function as `progTracked` of `Theorems/C01.lean`.) -/

theorem unjustIn_false_iff (log : List Ev) : unjustIn log = false ↔ ∀ i, Ev.unjust i ∉ log := by
  unfold unjustIn
  constructor
  · intro h i hi
    have : (log.any fun e => match e with | .unjust _ => true | _ => false) = true :=
      List.any_eq_true.2 ⟨_, hi, rfl⟩
    rw [h] at this; cases this
  · intro h
    cases hb : (log.any fun e => match e with | .unjust _ => true | _ => false) with
    | false => rfl
    | true =>
      obtain ⟨e, he, hm⟩ := List.any_eq_true.1 hb
      cases e with
      | unjust i => exact absurd he (h i)
      | _ => simp at hm

theorem C09_memo_run_justified :
    ∀ (p : Prog) (ops : List Op), WF p = true → noEff p = true → bodiesTracked p = true →
      unjustIn (run p ops).log = false := by
  intro p ops hwf hne ht
  exact (unjustIn_false_iff _).2 (no_unjust_noeff hwf (memoOK_of_wf hwf ht) hne ops)

/-- non-vacuity: the memo part of `c09Prog` with a write and re-reads; memo 2 runs twice, justified -/
example :
    let p : Prog := [.sig 0, .memo (.rd true 0), .memo (.add (.rd true 0) (.rd true 1))]
    let ops : List Op := [.read 2, .set 0 1, .read 2, .read 1, .set 0 1, .read 2]
    WF p = true ∧ noEff p = true ∧ bodiesTracked p = true ∧ ((run p ops).get 2).runs = 3 ∧
    unjustIn (run p ops).log = false := by decide +kernel

end Leptos.Reactive
