import LeptosModel.Model.Reactive
import LeptosModel.Model.ReactiveOld
import LeptosModel.Proofs.ReactiveJust
import LeptosModel.Proofs.ReactiveOnce
/-!
# C09 — computations run only when something they read has changed

The ghost event `Ev.unjust id` is emitted by the model (`noteRun`) exactly when a body
is invoked although it has run before and no tracked input of its previous run has a
new version (signals: written since; memos: recomputed to an unequal value since).
The property says: no reachable history contains such an event.
-/
namespace Leptos.Reactive

def unjustIn (log : List Ev) : Bool := log.any fun e => match e with | .unjust _ => true | _ => false

/-- F-C09-1: `m1 = s`, `m2 = s + m1`, an effect reading `m2` then `m1`; after the initial run,
one write makes the effect body run twice with identical inputs the second time. -/
def c09Prog : Prog :=
  [.sig 0, .memo (.rd true 0), .memo (.add (.rd true 0) (.rd true 1)),
   .eff (.add (.rd true 2) (.rd true 1))]

def c09Ops : List Op := [.idle, .set 0 1, .idle]

/-- F-C09-1 (repaired in /repo 4084efd): with the effect scheduling code BEFORE the repair (`runOld`) one write made
the effect body run twice, the second time with identical inputs; with the repaired code it runs once. -/
theorem C09_effect_double_run_witness :
    WF c09Prog = true ∧
    unjustIn (runOld c09Prog c09Ops).log = true ∧ ((runOld c09Prog c09Ops).get 3).runs = 3 ∧
    unjustIn (run c09Prog c09Ops).log = false ∧ ((run c09Prog c09Ops).get 3).runs = 2 := by decide +kernel

/-- the full statement about the OLD code is false (regression witness) -/
def C09_run_justified_full_old : Prop :=
  ∀ (p : Prog) (ops : List Op), WF p = true → unjustIn (runOld p ops).log = false

theorem C09_run_justified_full_old_false : ¬ C09_run_justified_full_old := by
  intro h
  have h1 := h c09Prog c09Ops (by decide +kernel)
  have h2 := C09_effect_double_run_witness.2.1
  rw [h1] at h2
  exact absurd h2 (by decide)

theorem unjustIn_false_iff (log : List Ev) : unjustIn log = false ↔ ∀ i, Ev.unjust i ∉ log := by
  unfold unjustIn
  constructor
  · intro h i hi
    have : (log.any fun e => match e with | .unjust _ => true | _ => false) = true :=
      List.any_eq_true.2 ⟨_, hi, rfl⟩
    rw [h] at this; cases this
  · intro h
    cases hb : (log.any fun e => match e with | .unjust _ => true | _ => false) with
    | false => rfl
    | true =>
      obtain ⟨e, he, hm⟩ := List.any_eq_true.1 hb
      cases e with
      | unjust i => exact absurd he (h i)
      | _ => simp at hm

/-- **full statement**: for every well-formed program (memos and effects, tracked and `untrack(..)`
reads, effect bodies writing signals) and every history of writes, reads, executor polls, pause, resume
and dispose, no memo or effect body ever runs without justification (first run, or a tracked input of
its previous run has a new version).  It was FALSE of the code before the repair 4084efd, see
`C09_effect_double_run_witness`.  Proof: `Proofs/ReactiveJust.lean` (invariants `InvR.verDirty` for
memos, `EffJ` for effects, on top of the big-step lemma `upd_ok`). -/
theorem C09_run_justified_full :
    ∀ (p : Prog) (ops : List Op), WF p = true → unjustIn (run p ops).log = false := by
  intro p ops hwf
  exact (unjustIn_false_iff _).2 (no_unjust hwf ops)

/-- the same under the former extra hypothesis (kept for reference) -/
theorem C09_run_justified :
    ∀ (p : Prog) (ops : List Op), WF p = true → bodiesTracked p = true →
      unjustIn (run p ops).log = false :=
  fun p ops hwf _ => C09_run_justified_full p ops hwf

/-- effect-free corollary (first stage of the proof, kept) -/
theorem C09_memo_run_justified :
    ∀ (p : Prog) (ops : List Op), WF p = true → noEff p = true → bodiesTracked p = true →
      unjustIn (run p ops).log = false :=
  fun p ops hwf _ ht => C09_run_justified p ops hwf ht

/-- non-vacuity with an effect: the repaired F-C09-1 program, two writes, the effect runs three times -/
example :
    WF c09Prog = true ∧ bodiesTracked c09Prog = true ∧
    ((run c09Prog [.idle, .set 0 1, .idle, .set 0 2, .poll 0]).get 3).runs = 3 ∧
    unjustIn (run c09Prog [.idle, .set 0 1, .idle, .set 0 2, .poll 0]).log = false := by decide +kernel

/-- non-vacuity: the memo part of `c09Prog` with a write and re-reads; memo 2 runs twice, justified -/
example :
    let p : Prog := [.sig 0, .memo (.rd true 0), .memo (.add (.rd true 0) (.rd true 1))]
    let ops : List Op := [.read 2, .set 0 1, .read 2, .read 1, .set 0 1, .read 2]
    WF p = true ∧ noEff p = true ∧ bodiesTracked p = true ∧ ((run p ops).get 2).runs = 3 ∧
    unjustIn (run p ops).log = false := by decide +kernel

/-- non-vacuity with `untrack`: a memo reading `s0` tracked and `s1` untracked, and an effect on it -/
example :
    let p : Prog := [.sig 0, .sig 0, .memo (.add (.rd true 0) (.rd false 1)), .eff (.rd true 2)]
    let ops : List Op := [.idle, .set 1 5, .idle, .set 0 1, .idle, .read 2]
    WF p = true ∧ bodiesTracked p = false ∧ ((run p ops).get 2).runs = 2 ∧ ((run p ops).get 3).runs = 2 ∧
    unjustIn (run p ops).log = false := by decide +kernel

/-! ## a memo computes at most once per change of its inputs -/

/-- **at most once**: two consecutive reads (of any nodes `a`, `b`) with no write in between log at most
one `Ev.ran m` for every node `m` (`countRan m suf` = number of `ran m` events in `suf`,
`Proofs/ReactiveInv.lean`).  All WF programs (effects, untracked reads included). -/
theorem C09_memo_at_most_once :
    ∀ (p : Prog) (ops : List Op) (a b m : Nat), WF p = true →
      ∃ suf, (step p (step p (run p ops) (.read a)).1 (.read b)).1.log = (run p ops).log ++ suf ∧
        countRan m suf ≤ 1 :=
  fun _ ops a b m hwf => two_reads_at_most_once hwf ops a b m

/-- non-vacuity: in the diamond `m1 = s`, `m2 = s + m1`, reading `m2` then `m1` after a write runs `m1`
exactly once (the log suffix contains one `ran 1`) -/
example :
    let s := run c09Prog [.read 2, .set 0 1]
    let s2 := (step c09Prog (step c09Prog s (.read 2)).1 (.read 1)).1
    countRan 1 (s2.log.drop s.log.length) = 1 ∧ countRan 2 (s2.log.drop s.log.length) = 1 := by
  decide +kernel

/-! ## an effect never runs twice for one change (log level)

`C09_run_justified_full` says it with the ghost versions (`justified`: a tracked input of the previous
run has a new version).  The theorem below says it with the LOG alone, so it is not a corollary of the
former: it additionally needs that every new version of a data node is accompanied by its `set` /
`changed` event and that every recorded read is in the log after the run that made it
(`Proofs/ReactiveOnce.lean`, relation `ChgRel` carried through the whole machinery). -/

/-- **at most one run per change**: in the log of every history of every WF program (memos, effects,
untracked reads, writer effects, pause/resume/dispose), whenever `ran w` occurs and `w` has run before,
the part of the log before it has the shape `l1 ++ ran w :: m1 ++ rdv w x v :: m2` where `ran w` is the
PREVIOUS run of `w` (no `ran w` in `m1`, `m2`), `rdv w x v` is a tracked read made by that run, and `x`
changed after that read and before the new run (`set x` or `changed x` in `m2`).  Holds for memos and
effects alike. -/
theorem C09_effect_at_most_once_per_change :
    ∀ (p : Prog) (ops : List Op) (w : Nat) (a b : List Ev), WF p = true →
      (run p ops).log = a ++ Ev.ran w :: b → Ev.ran w ∈ a →
      ∃ l1 m1 m2 x v, a = l1 ++ Ev.ran w :: (m1 ++ Ev.rdv w x v :: m2) ∧
        Ev.ran w ∉ m1 ∧ Ev.ran w ∉ m2 ∧ (Ev.set x ∈ m2 ∨ Ev.changed x ∈ m2) :=
  fun _ ops _ _ _ hwf hl hm => run_once hwf ops hl hm

/-- non-vacuity: the log of the repaired F-C09-1 program under `idle, s := 1, idle`; the effect (node 3)
runs twice, the second run comes after `rdv 3 2 0 … changed 2` -/
example :
    (run c09Prog c09Ops).log =
      [.ran 3, .ran 2, .rdv 2 0 0, .ran 1, .rdv 1 0 0, .changed 1, .rdv 2 1 0, .changed 2,
        .rdv 3 2 0, .rdv 3 1 0] ++ .set 0 :: .woke 3 :: .ran 2 :: .rdv 2 0 1 :: .ran 1 :: .rdv 1 0 1 ::
        .changed 1 :: .woke 3 :: .rdv 2 1 1 :: .changed 2 :: .ran 3 :: [.rdv 3 2 2, .rdv 3 1 1] := by
  decide +kernel

end Leptos.Reactive
