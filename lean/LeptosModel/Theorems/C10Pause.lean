import LeptosModel.Model.AsyncPause
import LeptosModel.Proofs.Async
import LeptosModel.Proofs.AsyncPause
/-!
# Theorems/C10Pause — the async derived under a paused owner (C10, `Model/AsyncPause`)

State-level theorems: they hold in EVERY state, hence after every history with `pause` / `resume` in it.
-/
namespace Leptos.Async

/-- While its owner is paused, a poll of the derived's task at `rx.next()` consumes the notification and nothing
else: the `Dirty` state (and a dirty source memo) stay as they are, no load is started, value and loading indication
are unchanged; the task goes back to sleep with its waker registered. -/
theorem C10_paused_runs_nothing (s : State) (h : s.pc = .waiting) :
    (pollDPaused s).chan = false ∧ (pollDPaused s).reg = true ∧ (pollDPaused s).dWoken = false ∧
    (pollDPaused s).pc = .waiting ∧ (pollDPaused s).dstate = s.dstate ∧ (pollDPaused s).smDirty = s.smDirty ∧
    (pollDPaused s).nf = s.nf ∧ (pollDPaused s).value = s.value ∧ (pollDPaused s).loading = s.loading ∧
    (pollDPaused s).src = s.src ∧ (pollDPaused s).aws = s.aws := by
  simp [pollDPaused, h]

/-- ... and with a fetch in flight it may complete and store that fetch, but it never starts one and never consumes
the `Dirty` state -/
theorem C10_paused_starts_no_load (s : State) (h : s.pc ≠ .start) :
    (pollDPaused s).nf = s.nf ∧ (pollDPaused s).dstate = s.dstate ∧ (pollDPaused s).pc ≠ .start := by
  cases hp : s.pc
  · exact absurd hp h
  · simp [pollDPaused, hp]
  · simp only [pollDPaused, hp]
    split
    · simp only [applyResult]
      split <;> simp
    · simp [hp]

/-- "Until notified again": whatever happened under pause, a notification of the derived with the owner running
always reaches its task — the state becomes `Dirty`, the channel flag is set, and a task that sleeps with its waker
registered is woken.  (`mark_dirty` does this from `Dirty` as well as from `Clean`: the seeded variant "only from
`Clean`" loses exactly this, `C10_no_renotify_witness`.) -/
theorem C10_notified_again_reaches_task (s : State) (hn : s.dstate ≠ .notifying) :
    (dMarkDirty s).dstate = .dirty ∧ (dMarkDirty s).chan = true ∧
    (s.reg = true → (dMarkDirty s).dWoken = true) ∧ (s.dWoken = true → (dMarkDirty s).dWoken = true) := by
  simp only [dMarkDirty, dNotify, if_neg hn]
  split <;> simp_all

theorem dirty_iter (t : State) (hc : t.chan = true) (hd : t.dstate = .dirty) :
    dIter t = ({ fetchState t with dataReg := (fetchState t).tickFired }, false) ∧
    fetchState t =
      { t with
        reg := true, chan := false,
        dstate := (if t.dstate = .dirty then .clean else t.dstate),
        smVal := (if t.smDirty then t.src else t.smVal), smRc := (if t.smDirty then t.rc else t.smRc),
        smDirty := false, initialFut := false,
        curStatus := .pending, nf := t.nf + 1,
        curInputs := (if t.viaMemo then (if t.smDirty then t.src else t.smVal)
                      else (Run.execAll t.src t.fx.sync {}).vals),
        run := (if t.viaMemo then t.run else Run.execAll t.src t.fx.sync {}),
        dSub := t.dSub ++ (if t.viaMemo then t.run else Run.execAll t.src t.fx.sync {}).log.map (·.1),
        firstRun := false, loading := true, version := t.version + 1, fetchVersion := t.version + 1,
        idsHeld := t.susp, pending := t.pending + t.susp, susp := 0, coveredCur := decide (0 < t.susp),
        readSince := false, msetDuring := false, dataReg := false,
        tickFired := !t.isLocal,
        aws := (if t.isLocal then t.aws ++ [{ kind := .tick, tag := t.nf + 1 }] else t.aws),
        pc := .fetching } := by
  have hchk : (chk t).2 = true := by simp [chk, dNeedsRerun, hd]
  rcases fetchState_cases t with ⟨h1, _⟩ | heq
  · rw [hchk] at h1; exact absurd h1 (by decide)
  · have hst : (fetchState t).curStatus = .pending := by rw [heq]
    refine ⟨?_, heq⟩
    rw [dIter_def, if_neg (by simp [hc]), if_pos (Or.inl hchk), if_neg (by simp [hst])]

/-- ... and the task, polled with the owner running, then looks at its sources again: from `rx.next()` with the flag
set and the state `Dirty` it starts a new fetch, which reads the CURRENT source values, and turns loading on. -/
theorem C10_dirty_poll_refetches (s : State) (hpc : s.pc = .waiting) (hc : s.chan = true) (hd : s.dstate = .dirty)
    (hvm : s.viaMemo = false) :
    (pollD s).pc = .fetching ∧ (pollD s).nf = s.nf + 1 ∧ (pollD s).loading = true ∧ (pollD s).dstate = .clean ∧
    (pollD s).curInputs = (Run.execAll s.src s.fx.sync {}).vals ∧ (pollD s).curStatus = .pending := by
  obtain ⟨hit, heq⟩ := dirty_iter { s with dWoken := false } hc hd
  have hp : pollD s = { fetchState { s with dWoken := false } with
      dataReg := (fetchState { s with dWoken := false }).tickFired } := by
    unfold pollD
    dsimp only
    split
    · rename_i h; rw [hpc] at h; exact absurd h (by decide)
    · rw [Async.dLoop, hit]; simp
    · rename_i h; rw [hpc] at h; exact absurd h (by decide)
  rw [hp, heq]
  simp [hd, hvm]

/-! ## kernel-checked histories (`runP false` = the code as it is, `runP true` = the seeded variant) -/

/-- first load done (value for source 1... the default cfg has one source with value 0) -/
def pauseLoaded : List PEvent := [.ev (.poll 0), .ev (.complete 0), .ev (.poll 0)]

/-- the owner is paused, the source is written, the task is polled (it consumes the notification), the owner is resumed -/
def pauseMissed : List PEvent := pauseLoaded ++ [.pause, .ev (.set 0 2), .ev (.poll 0), .resume]

/-- WITHOUT a later notification the derived stays on the old value although its owner runs again and everything is
idle: the documented contract of `Owner::resume` ("until notified again") — and `missed` says so -/
theorem C10_paused_stale_until_notified_witness :
    (runP false {} pauseMissed).paused = false ∧ (runP false {} pauseMissed).missed = true ∧
    settled (runP false {} pauseMissed).s = true ∧ readyList (runP false {} pauseMissed).s = [] ∧
    (runP false {} pauseMissed).s.src = [2] ∧
    (runP false {} pauseMissed).s.value = some (fetchFn [0]) ∧
    expected (runP false {} pauseMissed).s = some (fetchFn [2]) ∧
    (runP false {} pauseMissed).s.dstate = .dirty ∧ (runP false {} pauseMissed).s.chan = false := by decide

/-- WITH a later write (owner running) the task is woken, refetches and the derived settles on the latest inputs -/
theorem C10_resume_then_write_settles_witness :
    let es := pauseMissed ++ [.ev (.set 0 3), .ev (.poll 0), .ev (.complete 1), .ev (.poll 0)]
    (runP false {} es).missed = false ∧ settled (runP false {} es).s = true ∧
    (runP false {} es).s.nf = 2 ∧ (runP false {} es).s.loading = false ∧
    (runP false {} es).s.value = some (fetchFn [3]) ∧ expected (runP false {} es).s = some (fetchFn [3]) := by
  decide

/-- the seeded variant (`mark_dirty` notifies only from `Clean`): the write after `resume` finds the state `Dirty`
and wakes nobody — everything is idle, nothing is missed according to the bookkeeping, and the derived is stuck on
the value for the inputs of before the pause, for good -/
theorem C10_no_renotify_witness :
    let es := pauseMissed ++ [.ev (.set 0 3)]
    (runP true {} es).missed = false ∧ (runP true {} es).paused = false ∧
    readyList (runP true {} es).s = [] ∧ settled (runP true {} es).s = true ∧
    (runP true {} es).s.value = some (fetchFn [0]) ∧ expected (runP true {} es).s = some (fetchFn [3]) ∧
    -- the code as it is wakes the task at this point
    readyList (runP false {} es).s = [.d] := by decide

/-- OPEN (not proved; stated, not claimed): the full statement over ALL histories with `pause` / `resume`.  Whenever
nothing is `missed` — since the last notification that the task consumed under pause, a source write / refetch has been
made with the owner running — a settled point has loading off and the value for the latest inputs (the conclusion of
`C10_settles_on_latest`).  The two state-level theorems above are its two halves for one write and one poll
(`C10_notified_again_reaches_task`, `C10_dirty_poll_refetches`); the invariant of `Proofs/Async` does not survive a
paused poll (`Dirty` with the channel flag cleared), an invariant for `stepP` is not done. -/
def C10_resume_then_write_settles_open : Prop :=
  ∀ (c : Cfg) (es : List PEvent), (runP false c es).missed = false → settled (runP false c es).s = true →
    (runP false c es).s.loading = false ∧ (runP false c es).s.value = expected (runP false c es).s

/-! ## histories with ONE pause: the partial of `C10_resume_then_write_settles_open` -/

/-- ordinary events with the owner running are the steps of `Model/Async` -/
theorem stepP_running (p : PState) (hp : p.paused = false) (e : Event) :
    (stepP false p (.ev e)).s = step p.s e ∧ (stepP false p (.ev e)).paused = false := by
  cases e <;> simp [stepP, step, hp, pollNthP] <;> (try (split <;> rfl))

theorem foldl_running (p : PState) (hp : p.paused = false) (es : List Event) :
    ((es.map PEvent.ev).foldl (stepP false) p).s = es.foldl step p.s ∧
    ((es.map PEvent.ev).foldl (stepP false) p).paused = false := by
  induction es generalizing p with
  | nil => exact ⟨rfl, hp⟩
  | cons e es ih =>
    obtain ⟨h1, h2⟩ := stepP_running p hp e
    have := ih _ h2
    simp only [List.map_cons, List.foldl_cons]
    rw [h1] at this
    exact this

/-- ... and so are events other than polls while it is paused -/
theorem stepP_nopoll (p : PState) (e : Event) (he : ∀ j, e ≠ .poll j) :
    (stepP false p (.ev e)).s = step p.s e ∧ (stepP false p (.ev e)).paused = p.paused := by
  cases e <;> first | exact absurd rfl (he _) | simp [stepP, step]

theorem foldl_nopoll (p : PState) (es : List Event) (hes : ∀ e ∈ es, ∀ j, e ≠ .poll j) :
    ((es.map PEvent.ev).foldl (stepP false) p).s = es.foldl step p.s ∧
    ((es.map PEvent.ev).foldl (stepP false) p).paused = p.paused := by
  induction es generalizing p with
  | nil => exact ⟨rfl, rfl⟩
  | cons e es ih =>
    obtain ⟨h1, h2⟩ := stepP_nopoll p e (hes e (by simp))
    have := ih (stepP false p (.ev e)) (fun x hx => hes x (by simp [hx]))
    simp only [List.map_cons, List.foldl_cons]
    rw [h1, h2] at this
    exact this

/-- the shape of history the partial is about: anything (owner running); `pause`; writes, refetches, completions,
attachments — anything but polls; ONE poll (of any woken task: if it is the derived's, the notification is
swallowed); `resume`; a source write; anything (owner running) -/
def onePause (es₁ ws : List Event) (j i : Nat) (v : Val) (es₂ : List Event) : List PEvent :=
  es₁.map .ev ++ [.pause] ++ ws.map .ev ++ [.ev (.poll j), .resume, .ev (.set i v)] ++ es₂.map .ev

/-- the state just before the write after `resume` -/
def beforeWrite (c : Cfg) (es₁ ws : List Event) (j : Nat) : State :=
  (pollNthP true (ws.foldl step (run c es₁)) j).1

theorem runP_onePause (c : Cfg) (es₁ ws : List Event) (hws : ∀ e ∈ ws, ∀ k, e ≠ .poll k) (j i : Nat) (v : Val)
    (es₂ : List Event) :
    (runP false c (onePause es₁ ws j i v es₂)).s = es₂.foldl step (setSrc (beforeWrite c es₁ ws j) i v) := by
  unfold runP onePause beforeWrite
  simp only [List.foldl_append, List.foldl_cons, List.foldl_nil]
  obtain ⟨a1, a2⟩ := foldl_running { s := init c } rfl es₁
  generalize (es₁.map PEvent.ev).foldl (stepP false) { s := init c } = p1 at a1 a2
  obtain ⟨b1, b2⟩ := foldl_nopoll (stepP false p1 .pause) ws hws
  generalize (ws.map PEvent.ev).foldl (stepP false) (stepP false p1 .pause) = p2 at b1 b2
  have hp2 : p2.s = ws.foldl step (run c es₁) := by rw [b1]; simp [stepP, a1, run]
  have hpa : p2.paused = true := by rw [b2]; simp [stepP]
  have h3 : (stepP false (stepP false (stepP false p2 (.ev (.poll j))) .resume) (.ev (.set i v))).s =
      setSrc (pollNthP true (ws.foldl step (run c es₁)) j).1 i v := by
    simp [stepP, hp2, hpa]
  have h4 : (stepP false (stepP false (stepP false p2 (.ev (.poll j))) .resume) (.ev (.set i v))).paused = false := by
    simp [stepP]
  obtain ⟨c1, _⟩ := foldl_running _ h4 es₂
  rw [c1, h3]

/-- PARTIAL of `C10_resume_then_write_settles_open`: histories with ONE pause in which the paused owner's task is polled
at most once (everything before the pause, between `pause` and that poll except polls, and after the write is
arbitrary), and the write after `resume` goes to a source the derived reads (`hsub`: through the memo, or a source in
its dependency set — a write to another source notifies nobody).  Then every settled point after that write has
loading off and the value for the latest inputs — whatever was swallowed under pause.  Missing for the full statement:
an invariant for arbitrary paused segments (several polls under pause, several pauses). -/
theorem C10_resume_then_write_settles_partial (c : Cfg) (es₁ ws : List Event)
    (hws : ∀ e ∈ ws, ∀ k, e ≠ .poll k) (j i : Nat) (v : Val) (es₂ : List Event)
    (hi : i < (beforeWrite c es₁ ws j).src.length)
    (hsub : (beforeWrite c es₁ ws j).viaMemo = true ∨ i ∈ (beforeWrite c es₁ ws j).dSub)
    (hs : settled (runP false c (onePause es₁ ws j i v es₂)).s = true) :
    (runP false c (onePause es₁ ws j i v es₂)).s.loading = false ∧
    (runP false c (onePause es₁ ws j i v es₂)).s.value = expected (runP false c (onePause es₁ ws j i v es₂)).s := by
  have hg : Good (ws.foldl step (run c es₁)) := by
    have : Good (run c es₁) := (Good.init c).foldl es₁
    exact this.foldl ws
  have hb : Good (setSrc (beforeWrite c es₁ ws j) i v) := by
    unfold beforeWrite at hi hsub ⊢
    unfold pollNthP at hi hsub ⊢
    dsimp only at hi hsub ⊢
    split at hi
    · rename_i hd
      simp only [hd] at hsub ⊢
      exact hg.write_after_paused_poll i v hi hsub
    · rename_i hd
      exact (hg.step (.poll j)).step (.set i v)
  rw [runP_onePause c es₁ ws hws j i v es₂] at hs ⊢
  have hfin := hb.foldl es₂
  exact settles_of hfin.i hfin.r hs

/-- non-vacuity: the witness history of `C10_resume_then_write_settles_witness` has this shape and satisfies the
hypotheses (the notification IS swallowed in it) -/
example :
    (runP false {} (onePause [.poll 0, .complete 0, .poll 0] [.set 0 2] 0 0 3 [.poll 0, .complete 1, .poll 0])).s.value
      = some (fetchFn [3]) :=
  ((C10_resume_then_write_settles_partial {} [.poll 0, .complete 0, .poll 0] [.set 0 2]
    (by intro e he k; simp at he; subst he; intro h; cases h) 0 0 3
    [.poll 0, .complete 1, .poll 0] (by decide) (by decide) (by decide)).2).trans (by decide)

end Leptos.Async
