import LeptosModel.Model.AsyncPause
import LeptosModel.Proofs.Async
/-!
# Theorems/C10Pause — the async derived under a paused owner (C10, `Model/AsyncPause`)

State-level theorems: they hold in EVERY state, hence after every history with `pause` / `resume` in it.
-/
namespace Leptos.Async

/-- While its owner is paused, a poll of the derived's task at `rx.next()` consumes the notification and nothing
else: the `Dirty` state (and a dirty source memo) stay as they are, no load is started, value and loading indication
are unchanged; the task goes back to sleep with its waker registered. -/
theorem C10_paused_runs_nothing (s : State) (h : s.pc = .waiting) :
    (pollDPaused s).chan = false ∧ (pollDPaused s).reg = true ∧ (pollDPaused s).dWoken = false ∧
    (pollDPaused s).pc = .waiting ∧ (pollDPaused s).dstate = s.dstate ∧ (pollDPaused s).smDirty = s.smDirty ∧
    (pollDPaused s).nf = s.nf ∧ (pollDPaused s).value = s.value ∧ (pollDPaused s).loading = s.loading ∧
    (pollDPaused s).src = s.src ∧ (pollDPaused s).aws = s.aws := by
  simp [pollDPaused, h]

/-- ... and with a fetch in flight it may complete and store that fetch, but it never starts one and never consumes
the `Dirty` state -/
theorem C10_paused_starts_no_load (s : State) (h : s.pc ≠ .start) :
    (pollDPaused s).nf = s.nf ∧ (pollDPaused s).dstate = s.dstate ∧ (pollDPaused s).pc ≠ .start := by
  cases hp : s.pc
  · exact absurd hp h
  · simp [pollDPaused, hp]
  · simp only [pollDPaused, hp]
    split
    · simp only [applyResult]
      split <;> simp
    · simp [hp]

/-- "Until notified again": whatever happened under pause, a notification of the derived with the owner running
always reaches its task — the state becomes `Dirty`, the channel flag is set, and a task that sleeps with its waker
registered is woken.  (`mark_dirty` does this from `Dirty` as well as from `Clean`: the seeded variant "only from
`Clean`" loses exactly this, `C10_no_renotify_witness`.) -/
theorem C10_notified_again_reaches_task (s : State) (hn : s.dstate ≠ .notifying) :
    (dMarkDirty s).dstate = .dirty ∧ (dMarkDirty s).chan = true ∧
    (s.reg = true → (dMarkDirty s).dWoken = true) ∧ (s.dWoken = true → (dMarkDirty s).dWoken = true) := by
  simp only [dMarkDirty, dNotify, if_neg hn]
  split <;> simp_all

theorem dirty_iter (t : State) (hc : t.chan = true) (hd : t.dstate = .dirty) :
    dIter t = ({ fetchState t with dataReg := (fetchState t).tickFired }, false) ∧
    fetchState t =
      { t with
        reg := true, chan := false,
        dstate := (if t.dstate = .dirty then .clean else t.dstate),
        smVal := (if t.smDirty then t.src else t.smVal), smRc := (if t.smDirty then t.rc else t.smRc),
        smDirty := false, initialFut := false,
        curStatus := .pending, nf := t.nf + 1,
        curInputs := (if t.viaMemo then (if t.smDirty then t.src else t.smVal)
                      else (Run.execAll t.src t.fx.sync {}).vals),
        run := (if t.viaMemo then t.run else Run.execAll t.src t.fx.sync {}),
        dSub := t.dSub ++ (if t.viaMemo then t.run else Run.execAll t.src t.fx.sync {}).log.map (·.1),
        firstRun := false, loading := true, version := t.version + 1, fetchVersion := t.version + 1,
        idsHeld := t.susp, pending := t.pending + t.susp, susp := 0, coveredCur := decide (0 < t.susp),
        readSince := false, msetDuring := false, dataReg := false,
        tickFired := !t.isLocal,
        aws := (if t.isLocal then t.aws ++ [{ kind := .tick, tag := t.nf + 1 }] else t.aws),
        pc := .fetching } := by
  have hchk : (chk t).2 = true := by simp [chk, dNeedsRerun, hd]
  rcases fetchState_cases t with ⟨h1, _⟩ | heq
  · rw [hchk] at h1; exact absurd h1 (by decide)
  · have hst : (fetchState t).curStatus = .pending := by rw [heq]
    refine ⟨?_, heq⟩
    rw [dIter_def, if_neg (by simp [hc]), if_pos (Or.inl hchk), if_neg (by simp [hst])]

/-- ... and the task, polled with the owner running, then looks at its sources again: from `rx.next()` with the flag
set and the state `Dirty` it starts a new fetch, which reads the CURRENT source values, and turns loading on. -/
theorem C10_dirty_poll_refetches (s : State) (hpc : s.pc = .waiting) (hc : s.chan = true) (hd : s.dstate = .dirty)
    (hvm : s.viaMemo = false) :
    (pollD s).pc = .fetching ∧ (pollD s).nf = s.nf + 1 ∧ (pollD s).loading = true ∧ (pollD s).dstate = .clean ∧
    (pollD s).curInputs = (Run.execAll s.src s.fx.sync {}).vals ∧ (pollD s).curStatus = .pending := by
  obtain ⟨hit, heq⟩ := dirty_iter { s with dWoken := false } hc hd
  have hp : pollD s = { fetchState { s with dWoken := false } with
      dataReg := (fetchState { s with dWoken := false }).tickFired } := by
    unfold pollD
    dsimp only
    split
    · rename_i h; rw [hpc] at h; exact absurd h (by decide)
    · rw [Async.dLoop, hit]; simp
    · rename_i h; rw [hpc] at h; exact absurd h (by decide)
  rw [hp, heq]
  simp [hd, hvm]

/-! ## kernel-checked histories (`runP false` = the code as it is, `runP true` = the seeded variant) -/

/-- first load done (value for source 1... the default cfg has one source with value 0) -/
def pauseLoaded : List PEvent := [.ev (.poll 0), .ev (.complete 0), .ev (.poll 0)]

/-- the owner is paused, the source is written, the task is polled (it consumes the notification), the owner is resumed -/
def pauseMissed : List PEvent := pauseLoaded ++ [.pause, .ev (.set 0 2), .ev (.poll 0), .resume]

/-- WITHOUT a later notification the derived stays on the old value although its owner runs again and everything is
idle: the documented contract of `Owner::resume` ("until notified again") — and `missed` says so -/
theorem C10_paused_stale_until_notified_witness :
    (runP false {} pauseMissed).paused = false ∧ (runP false {} pauseMissed).missed = true ∧
    settled (runP false {} pauseMissed).s = true ∧ readyList (runP false {} pauseMissed).s = [] ∧
    (runP false {} pauseMissed).s.src = [2] ∧
    (runP false {} pauseMissed).s.value = some (fetchFn [0]) ∧
    expected (runP false {} pauseMissed).s = some (fetchFn [2]) ∧
    (runP false {} pauseMissed).s.dstate = .dirty ∧ (runP false {} pauseMissed).s.chan = false := by decide

/-- WITH a later write (owner running) the task is woken, refetches and the derived settles on the latest inputs -/
theorem C10_resume_then_write_settles_witness :
    let es := pauseMissed ++ [.ev (.set 0 3), .ev (.poll 0), .ev (.complete 1), .ev (.poll 0)]
    (runP false {} es).missed = false ∧ settled (runP false {} es).s = true ∧
    (runP false {} es).s.nf = 2 ∧ (runP false {} es).s.loading = false ∧
    (runP false {} es).s.value = some (fetchFn [3]) ∧ expected (runP false {} es).s = some (fetchFn [3]) := by
  decide

/-- the seeded variant (`mark_dirty` notifies only from `Clean`): the write after `resume` finds the state `Dirty`
and wakes nobody — everything is idle, nothing is missed according to the bookkeeping, and the derived is stuck on
the value for the inputs of before the pause, for good -/
theorem C10_no_renotify_witness :
    let es := pauseMissed ++ [.ev (.set 0 3)]
    (runP true {} es).missed = false ∧ (runP true {} es).paused = false ∧
    readyList (runP true {} es).s = [] ∧ settled (runP true {} es).s = true ∧
    (runP true {} es).s.value = some (fetchFn [0]) ∧ expected (runP true {} es).s = some (fetchFn [3]) ∧
    -- the code as it is wakes the task at this point
    readyList (runP false {} es).s = [.d] := by decide

/-- OPEN (not proved; stated, not claimed): the full statement over ALL histories with `pause` / `resume`.  Whenever
nothing is `missed` — since the last notification that the task consumed under pause, a source write / refetch has been
made with the owner running — a settled point has loading off and the value for the latest inputs (the conclusion of
`C10_settles_on_latest`).  The two state-level theorems above are its two halves for one write and one poll
(`C10_notified_again_reaches_task`, `C10_dirty_poll_refetches`); the invariant of `Proofs/Async` does not survive a
paused poll (`Dirty` with the channel flag cleared), an invariant for `stepP` is not done. -/
def C10_resume_then_write_settles_open : Prop :=
  ∀ (c : Cfg) (es : List PEvent), (runP false c es).missed = false → settled (runP false c es).s = true →
    (runP false c es).s.loading = false ∧ (runP false c es).s.value = expected (runP false c es).s

end Leptos.Async
