import LeptosModel.Proofs.OwnerWatch
/-!
# C08 — owner disposal releases exactly what the scope created, exactly once

Property theorems over `Model/Owner` (the model's header maps every definition to the Rust code).

*Quantifiers.*  `Reachable st` : `st` is the property-relevant state (`Core`) after **any** sequence
of primitive steps from the empty state — in particular after any history of the harness's op
lines (`reachable_runOps`) and at every intermediate point of such a history (inside effect and memo
re-runs).  `cleanupOwner st o` is `Owner::cleanup` = the cleanup phase of `Owner::with_cleanup`
(every effect / memo re-run); `dropOwner st o` is `Drop for OwnerInner`.  Both are complete runs of
the cleanup machine (`C08_pass_terminates`).

*Scopes.*  `Below st o d` : `d` is `o` or reachable from `o` through `children` lists along owners that
can still be upgraded — what the recursion of `cleanup` visits.  `Touch st o x` : the same closure
without the liveness condition, plus the owners held by memo values stored in nodes of the scope —
everything a pass may write to.  `Desc`/`SD` : (strict) descendant in the `children` forest.
A child owner whose handle is retained is *detached* by its parent's `cleanup` (the `children` list
is taken): what is created under it later belongs to its own scope (`C08_detached_child_example`).

*Exempt frames.*  When a node holding a memo is removed, the `ArcMemo`'s `Owner` is dropped inside
the pass (`late = true` frames).  That owner was a child of the scope and has been cleaned before,
so nothing is left to run; the ordering theorem does not constrain such entries.

*Findings.*  `cleanup` leaves `contexts` in place (`C08_context_survives_cleanup`): the full
statement `C08_context_fresh_full` is refuted, `C08_context_fresh_partial` is the strongest true
statement, its hypothesis is the decidable class `ctx-survives-cleanup` of the check.
`Effect::watch` called its handler outside the effect's owner (F-C08-2, repaired in /repo): the
model follows the repaired code, `C08_watch_handler_owned` is the full statement, and
`C08_watch_handler_unowned` keeps the failing history as a witness against the old definition.
An `ImmediateEffect` disposed while it is running runs again (F-C08-3, class
`imm-reruns-after-dispose`, `C08_imm_disposed_midrun_reruns`; hooks/fix-c08-3.patch stops it:
`C08_imm_disposed_midrun_stops`): `EffDead` — the hypothesis of `C08_disposed_effect_never_runs` —
therefore asks that no run of the effect is in progress, which holds between op lines.

*Re-run kinds and scoped tasks.*  One theorem per kind of owner-scoped re-run
(`C08_memo_rerun_releases`, `C08_effect_rerun_releases` / `C08_render_rerun_releases`,
`C08_imm_rerun_releases` — including a run that starts while another run of the same effect is in
progress —, `C08_with_cleanup_releases`).  Effects, immediate effects and scoped tasks are rows of one
table, so `C08_disposed_effect_never_runs` covers them all; `C08_scope_cleanup_cancels` instantiates it
for what a cleanup closure decides over (a `new_scoped` effect, a task spawned with cancellation),
`C08_scoped_hook_registered` places that closure in the generation that spawns the task, and
`C08_held_owner_survives` is the reference count of owners captured by `ScopedFuture`.
-/
namespace Leptos.Owner

/-- reachable from the empty state by primitive steps -/
def Reachable (st : Core) : Prop := CoreReach {} st

/-- every state of every history of op lines is reachable -/
theorem reachable_runOps (ops : List Op) : Reachable (runOps {} ops).toCore := reach_runOps ops

theorem Reachable.treeWF {st : Core} (h : Reachable st) : TreeWF st := TreeWF.reach h TreeWF.init
theorem Reachable.cidInv {st : Core} (h : Reachable st) : CidInv st [] :=
  CoreReach.inv (fun _ _ hp => CidInv.prim hp) h CidInv.init
theorem Reachable.nodesOK {st : Core} (h : Reachable st) : NodesOK st := NodesOK.reach h NodesOK.init
theorem Reachable.arenaWF {st : Core} (h : Reachable st) : st.arena.WF := arenaWF_reach h Arena.WF_empty
theorem Reachable.owned {st : Core} (h : Reachable st) : Owned st [] := Owned.reach h Owned.init
theorem Reachable.cleanup {st : Core} (h : Reachable st) (o : Nat) : Reachable (cleanupOwner st o) :=
  CoreReach.tail h (CorePrim.pass _ _ rfl)
theorem Reachable.drop {st : Core} (h : Reachable st) (o : Nat) : Reachable (dropOwner st o) :=
  CoreReach.tail h (CorePrim.pass _ _ rfl)

/-! ## termination -/

/-- the cleanup machine always runs to completion with the fuel `runPass` gives it
(so `cleanupOwner`, `dropOwner`, `disposeKey` are complete passes, never truncated ones) -/
theorem C08_pass_terminates (st : Core) (fs : List Frame) :
    (runFrames (potential st fs) st fs).2 = [] :=
  runFrames_complete _ st fs (Nat.le_refl _)

/-! ## cleanups run exactly once -/

/-- **at most once, globally**: along every history no registered cleanup runs twice
(`cid` = the ghost serial number a cleanup gets when it is registered) -/
theorem C08_cleanup_never_twice (ops : List Op) (cid : Nat) :
    logCount cid (runOps {} ops).log ≤ 1 := by
  have := ((reachable_runOps ops).cidInv cid).1
  unfold occ at this
  omega

theorem logCount_pos_of_logHas {cid : Nat} {l : List Ev} (h : logHas cid l) : 1 ≤ logCount cid l := by
  obtain ⟨tag, ow, late, hm⟩ := h
  unfold logCount
  apply List.count_pos_iff.mpr
  exact List.mem_filterMap.mpr ⟨_, hm, rfl⟩

theorem sumW_ge_of_get {w : OwnerRec → Nat} {l : List OwnerRec} {o : Nat} {r : OwnerRec}
    (h : l[o]? = some r) : w r ≤ sumW w l := by
  have := sumW_set (w := w) h r
  have h2 : l.set o r = l := by
    apply List.ext_getElem?
    intro i
    by_cases hi : o = i
    · subst hi; rw [List.getElem?_set_self (lt_of_getElem?_some h)]; exact h.symm
    · rw [List.getElem?_set_ne hi]
  induction l generalizing o with
  | nil => simp at h
  | cons a l ih =>
    cases o with
    | zero => simp at h; subst h; simp [sumW]
    | succ o =>
      simp at h
      have h3 : l.set o r = l := by
        apply List.ext_getElem?
        intro i
        by_cases hi : o = i
        · subst hi; rw [List.getElem?_set_self (lt_of_getElem?_some h)]; exact h.symm
        · rw [List.getElem?_set_ne hi]
      have := ih h (sumW_set (w := w) h r) h3
      simp [sumW] at this ⊢; omega

theorem pending_not_logged {st : Core} (hc : CidInv st []) {d : Nat} {c : Cleanup}
    (hm : c ∈ cleanupsOf st d) : logCount c.cid st.log = 0 := by
  rw [cleanupsOf_eq] at hm
  obtain ⟨r, hr, hcr⟩ := field_mem_record hm
  have h1 : 1 ≤ recCount c.cid r := by
    unfold recCount
    exact List.count_pos_iff.mpr (List.mem_map.mpr ⟨c, hcr, rfl⟩)
  have h2 := sumW_ge_of_get (w := recCount c.cid) hr
  have := (hc c.cid).1
  unfold occ at this
  omega

/-- **exactly once**: when an owner is cleaned up (its effect or memo re-runs, or `cleanup` is called),
every cleanup registered under it or below it had not run before and has run exactly once afterwards -/
theorem C08_cleanups_exactly_once {st : Core} (hr : Reachable st) {o d : Nat} {c : Cleanup}
    (ha : st.aliveB o = true) (hd : Below st o d) (hc : c ∈ cleanupsOf st d) :
    logCount c.cid st.log = 0 ∧ logCount c.cid (cleanupOwner st o).log = 1 := by
  refine ⟨pending_not_logged hr.cidInv hc, ?_⟩
  have h1 := logCount_pos_of_logHas (cleanupOwner_runs hr.treeWF ha hd hc)
  have h2 := ((hr.cleanup o).cidInv c.cid).1
  unfold occ at h2
  omega

/-- the same when the scope is dropped (last handle of the owner gone; effect task ended) -/
theorem C08_cleanups_exactly_once_drop {st : Core} (hr : Reachable st) {o d : Nat} {c : Cleanup}
    (hd : Below st o d) (hc : c ∈ cleanupsOf st d) :
    logCount c.cid st.log = 0 ∧ logCount c.cid (dropOwner st o).log = 1 := by
  refine ⟨pending_not_logged hr.cidInv hc, ?_⟩
  have h1 := logCount_pos_of_logHas (dropOwner_runs hr.treeWF hd hc)
  have h2 := ((hr.drop o).cidInv c.cid).1
  unfold occ at h2
  omega

/-- **and no other cleanup appears**: every cleanup a pass runs was registered in the scope, or was
registered during the pass itself (by a cleanup that registers work while it runs) -/
theorem C08_no_other_cleanup {st : Core} (hr : Reachable st) (o : Nat) {tag cid ow : Nat} {late : Bool}
    (h : Ev.c tag cid ow late ∈ (cleanupOwner st o).log) :
    Ev.c tag cid ow late ∈ st.log ∨ (∃ x c, Touch st o x ∧ c ∈ cleanupsOf st x ∧ c.cid = cid) ∨
      st.nextCid ≤ cid :=
  (cleanupOwner_frame hr.arenaWF hr.nodesOK o).log tag cid ow late h

/-! ## descendants before ancestors -/

/-- **descendants first**: in the cleanups a `cleanup` pass logs, an owner's cleanup never comes
before a cleanup of one of its strict descendants (`ows` = owners of the logged cleanups, in order) -/
theorem C08_descendants_first {st : Core} (hr : Reachable st) (o : Nat) :
    ∃ suf, (cleanupOwner st o).log = st.log ++ suf ∧ (ows suf).Pairwise (fun a b => ¬ SD st a b) :=
  cleanupOwner_ordered hr.treeWF o

theorem C08_descendants_first_drop {st : Core} (hr : Reachable st) (o : Nat) :
    ∃ suf, (dropOwner st o).log = st.log ++ suf ∧ (ows suf).Pairwise (fun a b => ¬ SD st a b) :=
  dropOwner_ordered hr.treeWF o

/-! ## handles -/

/-- **handles are invalidated**: every arena entry registered under the owner or below it is dead
after the pass (`KeyDead`: the slot has moved past the key) … -/
theorem C08_handles_invalidated {st : Core} (hr : Reachable st) {o d : Nat} {k : Key}
    (ha : st.aliveB o = true) (hd : Below st o d) (hk : k ∈ nodesOf st d) :
    KeyDead (cleanupOwner st o).arena k :=
  cleanupOwner_kills hr.treeWF ha hd hk (hr.nodesOK d k hk)

theorem C08_handles_invalidated_drop {st : Core} (hr : Reachable st) {o d : Nat} {k : Key}
    (hd : Below st o d) (hk : k ∈ nodesOf st d) : KeyDead (dropOwner st o).arena k :=
  dropOwner_kills hr.treeWF hd hk (hr.nodesOK d k hk)

/-- … and a dead key never resolves again — not to its old value and not to any other value —
in any later history (slot versions only move forward) -/
theorem C08_stale_key_never_resolves (st : St) (k : Key) (hd : KeyDead st.arena k) (ops : List Op) :
    (runOps st ops).arena.get k = none :=
  ((ArenaLe.reach (sr_runOps (SR.refl st) ops)).dead k hd).get_none

/-! ## effects -/

/-- **a disposed effect never runs again**: once the arena entry of effect `e` is dead, no later
history logs a run of `e` (`rCount e` counts the `R e` events; the task only runs the body after it
has seen the entry — which owns the channel's sender — alive) -/
theorem C08_disposed_effect_never_runs (st : St) (e : Nat) (hd : EffDead st e) (ops : List Op) :
    rCount e (runOps st ops).log = rCount e st.log :=
  (k_runOps (K.refl e st hd.lt) (SR.refl st) hd ops).rc

/-- in particular: an effect (of any arena-stored kind: `Effect::new` / `new_sync` / `new_isomorphic` /
`watch`, `AsyncDerived`) created under an owner — its entry is one of the scope's nodes — never runs
again after that owner has been cleaned up -/
theorem C08_effects_in_scope_never_run (st : St) (hr : Reachable st.toCore) {o d e : Nat} {er : EffRec}
    {k : Key} (ha : st.aliveB o = true) (hd : Below st.toCore o d) (he : st.effs[e]? = some er)
    (hheld : er.held = false) (hkey : er.key = some k) (hdc : er.dropCid = none) (hrun : immRunning er = false)
    (hk : k ∈ nodesOf st.toCore d) (ops : List Op) :
    rCount e (runOps (st.lift (cleanupOwner · o)) ops).log = rCount e (cleanupOwner st.toCore o).log :=
  C08_disposed_effect_never_runs (st.lift (cleanupOwner · o)) e
    ⟨er, he, hheld, fun k' hk' => (by
      rw [hkey] at hk'; cases hk'
      exact C08_handles_invalidated hr ha hd hk), fun cid hc => (by rw [hdc] at hc; cases hc), hrun⟩ ops

/-- a `RenderEffect` (`new` / `new_isomorphic`) or an `ImmediateEffect` kept by its handle (`new` /
`new_mut` / `new_isomorphic`; neither is stored in the arena) never runs again once the handle has been
dropped — for an `ImmediateEffect`: dropped while none of its runs was in progress, see
`C08_imm_disposed_midrun_reruns` -/
theorem C08_dropped_render_effect_never_runs (st : St) (e : Nat) (er : EffRec) (he : st.effs[e]? = some er)
    (hheld : er.held = false) (hkey : er.key = none) (hdc : er.dropCid = none) (hrun : immRunning er = false)
    (ops : List Op) :
    rCount e (runOps st ops).log = rCount e st.log :=
  C08_disposed_effect_never_runs st e
    ⟨er, he, hheld, fun k hk => (by rw [hkey] at hk; cases hk), fun cid hc => (by rw [hdc] at hc; cases hc),
      hrun⟩ ops

/-- **what a cleanup closure decides over stops with the scope the closure was registered in**: an
`ImmediateEffect::new_scoped` effect (the closure owns the effect) and a task spawned by
`spawn_local_scoped_with_cancellation` (the closure owns its `AbortHandle`) carry the id of that
cleanup (`dropCid`); the cleanup is registered in scope `d` when the effect / task is created
(`C08_scoped_hook_registered`), so after a clean-up of `d` or of any owner `o` above it — a `cleanup`,
the next run of the effect / memo that owns the scope — the effect never runs again and the task never
runs user code again, whether the clean-up comes before the task's first poll, between two polls or
after its completion -/
theorem C08_scope_cleanup_cancels (st : St) (hr : Reachable st.toCore) {o d e : Nat} {er : EffRec}
    {c : Cleanup} (ha : st.aliveB o = true) (hd : Below st.toCore o d) (he : st.effs[e]? = some er)
    (hheld : er.held = false) (hkey : er.key = none) (hdc : er.dropCid = some c.cid)
    (hrun : immRunning er = false) (hc : c ∈ cleanupsOf st.toCore d) (ops : List Op) :
    rCount e (runOps (st.lift (cleanupOwner · o)) ops).log = rCount e (cleanupOwner st.toCore o).log :=
  C08_disposed_effect_never_runs (st.lift (cleanupOwner · o)) e
    ⟨er, he, hheld, fun k hk => (by rw [hkey] at hk; cases hk),
     fun cid hcid => (by
      rw [hdc] at hcid; cases hcid
      exact cleanupOwner_runs hr.treeWF ha hd hc), hrun⟩ ops

/-- `on_cleanup` does not change which owner is current -/
theorem currentOwner_regCleanup {st : Core} {tag : Nat} {nested : Bool} {drops : Option Nat} {o : Nat}
    (ho : currentOwner st = some o) : currentOwner (regCleanup st tag nested drops) = some o := by
  have hlt := currentOwner_lt ho
  obtain ⟨r, hr⟩ : ∃ r, st.owners[o]? = some r := ⟨st.owners[o], List.getElem?_eq_getElem hlt⟩
  have hcur : (regCleanup st tag nested drops).cur = st.cur := (regCleanup_spec st tag nested drops).2.2
  have hal : ∀ x, (regCleanup st tag nested drops).aliveB x = st.aliveB x := by
    intro x
    unfold regCleanup
    simp only
    have hc' : currentOwner { st with nextCid := st.nextCid + 1 } = some o := ho
    rw [hc']
    simp only
    unfold Core.aliveB
    rw [modOwner_get]
    by_cases hx : x = o
    · subst hx
      have hr' : ({ st with nextCid := st.nextCid + 1 } : Core).owners[x]? = some r := hr
      simp [hr', hr]
    · simp only [hx, if_false]
  unfold currentOwner at ho ⊢
  rw [hcur]
  split at ho
  · simp only [hal]; exact ho
  · cases ho

/-- `on_cleanup` puts the closure into the list of the owner that is current -/
theorem regCleanup_mem (st : Core) (tag : Nat) (nested : Bool) (drops : Option Nat) {o : Nat}
    (ho : currentOwner st = some o) :
    (⟨st.nextCid, tag, nested, drops⟩ : Cleanup) ∈ cleanupsOf (regCleanup st tag nested drops) o := by
  have hlt := currentOwner_lt ho
  unfold regCleanup
  simp only
  have hc' : currentOwner { st with nextCid := st.nextCid + 1 } = some o := ho
  rw [hc']
  simp only
  unfold cleanupsOf
  rw [modOwner_get]
  simp only [if_true]
  obtain ⟨r, hr⟩ : ∃ r, st.owners[o]? = some r := ⟨st.owners[o], List.getElem?_eq_getElem hlt⟩
  have hr' : ({ st with nextCid := st.nextCid + 1 } : Core).owners[o]? = some r := hr
  rw [hr']
  simp

/-- **the hook belongs to the generation that spawns the task**: `spawn_local_scoped_with_cancellation`
under a current owner `o` registers the closure that owns the `AbortHandle` in `o`'s list *at the
spawn*, before the task exists — not at the task's first poll, when `o` may already be in its next
generation — and the task's entry points at exactly that cleanup -/
theorem C08_scoped_hook_registered (st : St) (b : Nat) {o : Nat} (ho : currentOwner st.toCore = some o) :
    (newTask st b true).effs[st.effs.length]? = some (taskRec o b true st.obs (some st.nextCid)) ∧
    (⟨st.nextCid, abortTag st.effs.length, false, none⟩ : Cleanup) ∈ cleanupsOf (newTask st b true).toCore o := by
  have hcur : currentOwner (regCleanup st.toCore (abortTag st.effs.length) false none) = some o :=
    currentOwner_regCleanup ho
  unfold newTask
  simp only [ho, Option.isSome_some, Bool.and_true, if_true]
  unfold captureOwner
  rw [hcur]
  simp only
  exact ⟨by simp, regCleanup_mem st.toCore _ false none ho⟩

/-- **an owner that is still held is not dropped**: while a scoped task captured owner `o` (its future
has not been dropped), the other holders — an owner handle, the task of the effect that owns `o` —
letting go changes nothing; `o` is dropped when the last holder goes (`finishTask`) -/
theorem C08_held_owner_survives (st : St) {o e : Nat} {er : EffRec} (he : st.effs[e]? = some er)
    (ho : er.owner = o) (hk : er.kind.isImm = false) (hd : er.done = false) : releaseOwner st o = st := by
  have hm : er ∈ st.effs := List.mem_of_getElem? he
  have : ownerHeld st o = true := by
    unfold ownerHeld
    rw [Bool.or_eq_true]
    refine Or.inr (List.any_eq_true.mpr ⟨er, hm, ?_⟩)
    unfold effHolds
    simp [ho, hk, hd]
  unfold releaseOwner
  rw [this]; rfl

/-! ## every kind of owner-scoped re-run

The next run of a memo, of an effect of any kind, or of a direct `with_cleanup` starts with the same
complete pass over the scope's owner — whatever the previous run allocated (only plain arena values,
only cleanups, only child owners, a mixture, nothing).  Hence after the re-run every node of the
previous generation is dead and every cleanup of the previous generation has run. -/

/-- memo recomputation (`MemoInner::update_if_necessary`, `Dirty`) -/
theorem C08_memo_rerun_releases {ex : St → BOp → St} (hex : SRex ex) (st : St) (hr : Reachable st.toCore)
    {m : Nat} {mr : MemoRec} (hm : st.memos[m]? = some mr) (ha : st.aliveB mr.owner = true) {d : Nat}
    (hd : Below st.toCore mr.owner d) :
    (∀ k, k ∈ nodesOf st.toCore d → KeyDead (runMemo ex st m).arena k) ∧
    (∀ c, c ∈ cleanupsOf st.toCore d → logHas c.cid (runMemo ex st m).log) :=
  ⟨fun k hk => (ArenaLe.reach (runMemo_after hex st m mr hm)).dead k (C08_handles_invalidated hr ha hd hk),
   fun c hc => logHas_mono (runMemo_after hex st m mr hm) (cleanupOwner_runs hr.treeWF ha hd hc)⟩

/-- one iteration of the loop of `Effect::new` / `new_sync` / `new_isomorphic` / `watch`,
`RenderEffect`, `AsyncDerived` (`er.kind` is arbitrary) -/
theorem C08_effect_rerun_releases (st : St) (hr : Reachable st.toCore) (e : Nat) (er : EffRec)
    (ha : st.aliveB er.owner = true) {d : Nat} (hd : Below st.toCore er.owner d) :
    (∀ k, k ∈ nodesOf st.toCore d → KeyDead (runEffect st e er).arena k) ∧
    (∀ c, c ∈ cleanupsOf st.toCore d → logHas c.cid (runEffect st e er).log) :=
  ⟨fun k hk => (ArenaLe.reach (runEffect_after st e er)).dead k (C08_handles_invalidated hr ha hd hk),
   fun c hc => logHas_mono (runEffect_after st e er) (cleanupOwner_runs hr.treeWF ha hd hc)⟩

/-- in particular a `RenderEffect::new` / `new_isomorphic` (the re-run in its spawned task) -/
theorem C08_render_rerun_releases (st : St) (hr : Reachable st.toCore) (e : Nat) (er : EffRec)
    (_hk : er.kind = EffKind.render) (ha : st.aliveB er.owner = true) {d : Nat}
    (hd : Below st.toCore er.owner d) :
    (∀ k, k ∈ nodesOf st.toCore d → KeyDead (runEffect st e er).arena k) ∧
    (∀ c, c ∈ cleanupsOf st.toCore d → logHas c.cid (runEffect st e er).log) :=
  C08_effect_rerun_releases st hr e er ha hd

/-- every run of an `ImmediateEffect` (`new` / `new_scoped` / `new_mut` / `new_isomorphic`): the first
one, a later one, and — there is no hypothesis on `runStart` / `runDone` — **one that starts while an
earlier run of the same effect is still in progress** (the body wrote one of its own dependencies):
the interrupted run's cleanups run and its arena values and children are disposed before the new run
allocates -/
theorem C08_imm_rerun_releases {ex : St → BOp → St} (hex : SRex ex) (st : St) (hr : Reachable st.toCore)
    (e : Nat) (er : EffRec) (he : st.effs[e]? = some er)
    (hrun : (ownerPaused st.toCore er.owner || !er.dirty) = false)
    (ha : st.aliveB er.owner = true) {d : Nat} (hd : Below st.toCore er.owner d) :
    (∀ k, k ∈ nodesOf st.toCore d → KeyDead (immUpdate ex st e).arena k) ∧
    (∀ c, c ∈ cleanupsOf st.toCore d → logHas c.cid (immUpdate ex st e).log) :=
  ⟨fun k hk => (ArenaLe.reach (immUpdate_after hex st e er he hrun)).dead k (C08_handles_invalidated hr ha hd hk),
   fun c hc => logHas_mono (immUpdate_after hex st e er he hrun) (cleanupOwner_runs hr.treeWF ha hd hc)⟩

/-- `Owner::with_cleanup` called directly -/
theorem C08_with_cleanup_releases (st : St) (hr : Reachable st.toCore) (o b : Nat)
    (ha : st.aliveB o = true) {d : Nat} (hd : Below st.toCore o d) :
    (∀ k, k ∈ nodesOf st.toCore d → KeyDead (runWc st o b).arena k) ∧
    (∀ c, c ∈ cleanupsOf st.toCore d → logHas c.cid (runWc st o b).log) :=
  ⟨fun k hk => (ArenaLe.reach (runWc_after st o b)).dead k (C08_handles_invalidated hr ha hd hk),
   fun c hc => logHas_mono (runWc_after st o b) (cleanupOwner_runs hr.treeWF ha hd hc)⟩

/-! ### the handler of `Effect::watch` (F-C08-2, repaired)

Before the repair `Effect::watch` / `watch_sync` called the handler outside the effect's owner
(`runHandlerOld`, selected by the configuration flag `legacyWatch`); the repaired code calls it under
`owner.with(..)` (`runHandlerNew`): what the handler allocates belongs to the current run of the
effect and is released by the next run's `with_cleanup` together with what the dependency function
allocated. -/

/-- **full**: along every history (of the repaired model) nothing is ever created for a `watch`
handler while no owner frame is active -/
theorem C08_watch_handler_owned (ops : List Op) : (runOps {} ops).watchHit = false :=
  (w_runOps (a := {}) rfl (W.refl _) ops).hit

/-- regression witness against the **old** definition: with
`body r0; body i3; x o; in 0 x s1; in 0 x W0.1; idle` the stored value the handler creates has no
owner (`unowned = 1`) and survives the disposal of everything (`end`) -/
theorem C08_watch_handler_unowned :
    (runOps { legacyWatch := true } [.body [.read 0], .body [.item 3], .act [] (.x .newOwner),
      .act [0] (.x (.sig 1)), .act [0] (.x (.watch 0 1 true)), .idle]).watchHit = true ∧
    (runOps { legacyWatch := true } [.body [.read 0], .body [.item 3], .act [] (.x .newOwner),
      .act [0] (.x (.sig 1)), .act [0] (.x (.watch 0 1 true)), .idle, .«end»]).arena.len = 1 := by decide

/-- the same history on the repaired definition: the handler's value is owned by the effect and is
gone with everything else -/
theorem C08_watch_handler_released :
    (runOps {} [.body [.read 0], .body [.item 3], .act [] (.x .newOwner),
      .act [0] (.x (.sig 1)), .act [0] (.x (.watch 0 1 true)), .idle]).unowned = 0 ∧
    (runOps {} [.body [.read 0], .body [.item 3], .act [] (.x .newOwner),
      .act [0] (.x (.sig 1)), .act [0] (.x (.watch 0 1 true)), .idle, .«end»]).arena.len = 0 := by decide

/-- what a handler run allocates is a node of the effect's owner … -/
example : (runOps {} [.body [.read 0], .body [.item 3], .act [] (.x .newOwner), .act [0] (.x (.sig 1)),
    .act [0] (.x (.watch 0 1 true)), .idle]).items.map (runOps {} [.body [.read 0], .body [.item 3],
    .act [] (.x .newOwner), .act [0] (.x (.sig 1)), .act [0] (.x (.watch 0 1 true)), .idle]).arena.get
    = [some (Val.num 3)] := by decide
/-- … and the next run releases it (one live generation) -/
example : (runOps {} [.body [.read 0], .body [.item 3], .act [] (.x .newOwner), .act [0] (.x (.sig 1)),
    .act [0] (.x (.watch 0 1 true)), .idle, .set 0 2, .idle]).items.map (runOps {} [.body [.read 0],
    .body [.item 3], .act [] (.x .newOwner), .act [0] (.x (.sig 1)), .act [0] (.x (.watch 0 1 true)), .idle,
    .set 0 2, .idle]).arena.get = [none, some (Val.num 3)] := by decide

/-! ## frame -/

/-- **nothing outside the scope is affected** (owners): a `cleanup` pass leaves the record of every
owner outside the scope untouched — except the ambient owner, on which cleanups that register work
while they run put that work -/
theorem C08_frame_owners {st : Core} (hr : Reachable st) (o x : Nat) (hx : ¬ Touch st o x)
    (hamb : currentOwner st ≠ some x) : (cleanupOwner st o).owners[x]? = st.owners[x]? :=
  (cleanupOwner_frame hr.arenaWF hr.nodesOK o).owners x hx hamb

/-- **nothing outside the scope is affected** (arena): an entry that is not in a node list of the
scope resolves to the same value after the pass -/
theorem C08_frame_items {st : Core} (hr : Reachable st) (o : Nat) (k : Key) (w : Val)
    (hk : st.arena.get k = some w) (hout : ∀ x, Touch st o x → k ∉ nodesOf st x) :
    (cleanupOwner st o).arena.get k = some w :=
  (cleanupOwner_frame hr.arenaWF hr.nodesOK o).keys k w hk hout

/-- **frame**, both parts -/
theorem C08_frame {st : Core} (hr : Reachable st) (o : Nat) :
    (∀ x, ¬ Touch st o x → currentOwner st ≠ some x → (cleanupOwner st o).owners[x]? = st.owners[x]?) ∧
    (∀ k w, st.arena.get k = some w → (∀ x, Touch st o x → k ∉ nodesOf st x) →
      (cleanupOwner st o).arena.get k = some w) :=
  ⟨fun x hx ha => C08_frame_owners hr o x hx ha, fun k w hk ho => C08_frame_items hr o k w hk ho⟩

theorem C08_frame_owners_drop {st : Core} (hr : Reachable st) (o x : Nat) (hx : ¬ Touch st o x)
    (hamb : currentOwner st ≠ some x) : (dropOwner st o).owners[x]? = st.owners[x]? :=
  (dropOwner_frame hr.arenaWF hr.nodesOK o).owners x hx hamb

theorem C08_frame_items_drop {st : Core} (hr : Reachable st) (o : Nat) (k : Key) (w : Val)
    (hk : st.arena.get k = some w) (hout : ∀ x, Touch st o x → k ∉ nodesOf st x) :
    (dropOwner st o).arena.get k = some w :=
  (dropOwner_frame hr.arenaWF hr.nodesOK o).keys k w hk hout

/-! ## contexts -/

/-- **nearest provider**: `use_context` under the current owner `o` returns the entry of the first
owner on the chain `o, parent o, parent (parent o), …` (cut at the first owner that can no longer
be upgraded) that has an entry of that type -/
theorem C08_context_nearest {st : Core} (hr : Reachable st) (ty : Nat) :
    lookupCur st ty = (currentOwner st).bind fun o =>
      (chain (o + 1) st o).findSome? fun a => (ctxAt st a ty).map fun e => (a, e) := by
  unfold lookupCur
  cases hc : currentOwner st with
  | none => rfl
  | some o =>
    simp only [Option.bind_some]
    have hlt := currentOwner_lt hc
    have : st.owners.length + 1 = (o + 1) + (st.owners.length - o) := by omega
    rw [this, lookup_fuel hr.treeWF ty (o + 1) o (Nat.lt_succ_self _), lookup_eq_chain]

/-- **`take_context` takes the nearest provider and un-shadows the next one outward**: if the lookup
under the current owner resolves to the entry of owner `a` (the nearest provider:
`C08_context_nearest`), then after `take_context` every API of the family (`use_context`,
`expect_context`, `with_context`, `update_context`, the next `take_context` — they share the lookup)
resolves, under the same current owner, to what the lookup before the take finds on the same chain of
owners with `a` left out: the owners nearer than `a` had no entry, so this is the next provider
outward, or nothing; the entries of all other owners — other levels, other types — are untouched -/
theorem C08_take_unshadows (st : Core) (ty : Nat) {o a : Nat} {e : CtxEntry}
    (hc : currentOwner st = some o) (hl : lookupCur st ty = some (a, e)) :
    lookupCur (takeCtx st ty) ty =
      ((chain (st.owners.length + 1) st o).filter (· != a)).findSome? fun x =>
        (ctxAt st x ty).map fun e => (x, e) := by
  obtain ⟨hown, hcur⟩ := takeCtx_shape hl
  have h1 : currentOwner (takeCtx st ty) = some o := by
    rw [currentOwner_congr hcur (aliveB_takeCtx hl), hc]
  unfold lookupCur
  rw [h1]
  simp only
  rw [lookup_congr _ hown, hown, taken_length]
  exact lookup_after_take _ st o ty a

/-- a lookup resolves to an entry that its owner's last `cleanup` should have released -/
def staleLookup (st : Core) (ty : Nat) : Bool :=
  match lookupCur st ty with
  | some (_, e) => e.stale
  | none => false

/-- full statement: no lookup ever resolves to a context provided before its owner's last cleanup -/
def C08_context_fresh_full : Prop := ∀ ops : List Op, (runOps {} ops).staleHit = false

/-- F-C08-1: `x o; in 0 x p0.5; cleanup 0; in 0 x u0` reads 5 -/
theorem C08_context_survives_cleanup :
    (runOps {} [.act [] (.x .newOwner), .act [0] (.x (.provide 0 5)), .act [] (.cleanup 0),
      .act [0] (.x (.use 0))]).log = [Ev.u 0 (some 5)] ∧
    (runOps {} [.act [] (.x .newOwner), .act [0] (.x (.provide 0 5)), .act [] (.cleanup 0),
      .act [0] (.x (.use 0))]).staleHit = true := by
  decide

theorem C08_context_fresh_full_false : ¬ C08_context_fresh_full := by
  intro h
  have := h [.act [] (.x .newOwner), .act [0] (.x (.provide 0 5)), .act [] (.cleanup 0), .act [0] (.x (.use 0))]
  revert this; decide

/-- partial: a lookup that does not resolve to a stale entry (the negation is the decidable class
`ctx-survives-cleanup`) never raises the flag -/
theorem C08_context_fresh_partial (st : Core) (ty : Nat) (h : staleLookup st ty = false) :
    (useCtx st ty).staleHit = st.staleHit := by
  unfold staleLookup at h
  unfold useCtx
  cases hl : lookupCur st ty with
  | none => rfl
  | some p =>
    obtain ⟨o, e⟩ := p
    rw [hl] at h
    simp only at h ⊢
    rw [h]; simp

/-! ## no leak -/

/-- **no leak**: if every arena entry was created under some owner (`unowned = 0`) and every owner
is gone, no arena entry remains -/
theorem C08_no_leak {st : Core} (hr : Reachable st) (hu : st.unowned = 0)
    (hdead : ∀ o, st.aliveB o = false) : st.arena.len = 0 := by
  apply arena_len_zero
  intro k
  cases hg : st.arena.get k with
  | none => rfl
  | some v =>
    rcases hr.owned hu k v hg with ⟨o, ho, _⟩ | ⟨_, hm⟩
    · rw [hdead o] at ho; cases ho
    · cases hm

/-- full statement without the hypothesis on how entries were created -/
def C08_no_leak_full : Prop :=
  ∀ ops : List Op, (∀ o, (runOps {} ops).aliveB o = false) → (runOps {} ops).arena.len = 0

/-- `x i5; end`: a stored value created while no owner is current is never released -/
theorem C08_unowned_item_leaks :
    (runOps {} [.act [] (.x (.item 5)), .«end»]).arena.len = 1 ∧
    (runOps {} [.act [] (.x (.item 5)), .«end»]).unowned = 1 := by decide

theorem C08_no_leak_full_false : ¬ C08_no_leak_full := by
  intro h
  have := h [.act [] (.x (.item 5)), .«end»] (by
    intro o
    have : (runOps {} [.act [] (.x (.item 5)), .«end»]).owners = [] := by decide
    simp [Core.aliveB, this])
  revert this; decide

/-! ## non-vacuity, examples -/

/-- a history after which an alive owner has a cleanup and a node below it -/
def exOps : List Op :=
  [.act [] (.x .newOwner), .child 0, .act [1] (.x (.cleanup 7)), .act [1] (.x (.item 9)), .act [0] (.x (.cleanup 3))]

example : (runOps {} exOps).aliveB 0 = true := by decide
example : Below (runOps {} exOps).toCore 0 1 :=
  Below.step (by decide) (by decide) (Below.refl _)
example : (⟨0, 7, false, none⟩ : Cleanup) ∈ cleanupsOf (runOps {} exOps).toCore 1 := by decide
example : (⟨0, 0⟩ : Key) ∈ nodesOf (runOps {} exOps).toCore 1 := by decide
/-- the pass runs the child's cleanup (tag 7) before the parent's (tag 3) and removes the item -/
example : ((runOps {} (exOps ++ [.act [] (.cleanup 0)])).log.map fun e => match e with | .c t _ _ _ => t | _ => 0) = [7, 3] := by
  decide
example : (runOps {} (exOps ++ [.act [] (.cleanup 0)])).arena.get ⟨0, 0⟩ = none := by decide
example : staleLookup (runOps {} exOps).toCore 0 = false := by decide
example : (runOps {} [.act [] (.x .newOwner), .act [0] (.x (.item 5)), .«end»]).unowned = 0 ∧
    (runOps {} [.act [] (.x .newOwner), .act [0] (.x (.item 5)), .«end»]).arena.len = 0 := by decide

/-- two roots, each with a cleanup and an item: cleaning the first leaves the second's record and
item as they were and runs only the first's cleanup -/
def exTwo : List Op :=
  [.act [] (.x .newOwner), .act [] (.x .newOwner), .act [0] (.x (.cleanup 1)), .act [0] (.x (.item 10)),
   .act [1] (.x (.cleanup 2)), .act [1] (.x (.item 20))]
example : (runOps {} (exTwo ++ [.act [] (.cleanup 0)])).owners[1]? = (runOps {} exTwo).owners[1]? ∧
    (runOps {} (exTwo ++ [.act [] (.cleanup 0)])).arena.get ⟨1, 0⟩ = some (Val.num 20) ∧
    (runOps {} (exTwo ++ [.act [] (.cleanup 0)])).arena.get ⟨0, 0⟩ = none ∧
    (runOps {} (exTwo ++ [.act [] (.cleanup 0)])).log = [Ev.c 1 0 0 false] := by decide
/-- all owners gone, nothing unowned: the hypotheses of `C08_no_leak` are satisfiable -/
example : ((runOps {} (exTwo ++ [.«end»])).owners.all fun r => !r.alive) = true ∧
    (runOps {} (exTwo ++ [.«end»])).unowned = 0 ∧ (runOps {} (exTwo ++ [.«end»])).arena.len = 0 := by decide

/-- an effect created under owner 0 and disposed with it before its first run: its entry is dead … -/
example : EffDead (runOps {} [.body [.cleanup 4], .act [] (.x .newOwner), .act [0] (.x (.effect 0)),
    .act [] (.cleanup 0)]) 0 :=
  ⟨{ key := some ⟨0, 0⟩, owner := 1, body := 0, dirty := true, firstRun := true, notified := true, woken := true,
     done := false, sources := [], kind := EffKind.plain, held := false }, by decide, rfl,
   fun k hk => (by cases hk; exact ⟨⟨0, none⟩, by decide, by decide⟩), fun cid hc => (by cases hc), rfl⟩
/-- … and polling its task afterwards logs nothing (the pending first notification is lost) -/
example : (runOps {} [.body [.cleanup 4], .act [] (.x .newOwner), .act [0] (.x (.effect 0)),
    .act [] (.cleanup 0), .idle]).log = [] := by decide

/-- a memo whose body allocates only plain arena values (no cleanup, no child owner): the second
run disposes the stored value and the signal of the first run; the arena holds the root's signal,
the memo and one generation -/
def exMemoPlain : List Op :=
  [.body [.read 0, .item 7, .sig 3], .act [] (.x .newOwner), .act [0] (.x (.sig 1)), .act [0] (.x (.memo 0)),
   .act [] (.x (.get 0)), .set 0 2, .act [] (.x (.get 0))]
example : ((runOps {} exMemoPlain).items.map (runOps {} exMemoPlain).arena.get) = [none, some (Val.num 7)] ∧
    (runOps {} exMemoPlain).arena.len = 4 := by decide
/-- the same body re-run by an `Effect::watch`, a `RenderEffect`, an `AsyncDerived` and a direct
`with_cleanup`: one live generation each -/
example : (runOps {} [.body [.read 0, .item 7], .body [], .act [] (.x .newOwner), .act [0] (.x (.sig 1)),
    .act [0] (.x (.watch 0 1 false)), .idle, .set 0 2, .idle]).arena.len = 3 := by decide
example : (runOps {} [.body [.read 0, .item 7], .act [] (.x .newOwner), .act [0] (.x (.sig 1)),
    .act [0] (.x (.render 0)), .set 0 2, .idle, .set 0 3, .idle]).arena.len = 2 := by decide
example : (runOps {} [.body [.read 0, .item 7], .act [] (.x .newOwner), .act [0] (.x (.sig 1)),
    .act [0] (.x (.async 0)), .set 0 2, .idle, .set 0 3, .idle]).arena.len = 3 := by decide
example : (runOps {} [.body [.item 7, .newOwner], .act [] (.x .newOwner), .child 0,
    .act [] (.wc 1 0), .act [] (.wc 1 0), .act [] (.wc 1 0)]).arena.len = 1 := by decide
/-- a retained child owner is detached by its parent's `cleanup`: what is created under it later is
released when the child itself is cleaned or dropped, not by the parent's next `cleanup` -/
theorem C08_detached_child_example :
    (runOps {} [.act [] (.x .newOwner), .child 0, .act [] (.cleanup 0), .act [1] (.x (.item 3)),
      .act [] (.cleanup 0)]).arena.get ⟨0, 0⟩ = some (Val.num 3) ∧
    (runOps {} [.act [] (.x .newOwner), .child 0, .act [] (.cleanup 0), .act [1] (.x (.item 3)),
      .act [] (.cleanup 0), .drop 1]).arena.get ⟨0, 0⟩ = none := by decide

/-! ### `ImmediateEffect`s and scoped tasks: concrete histories -/

/-- the recursive shape (`body r0,i7,c5,z0.3,i8`; `x o; in 0 x s1; in 0 x j0`): the first run allocates
`i0`, registers `c5` and writes its own dependency; the run this triggers — while the first one is
still in progress — starts with the clean-up (`C5`, `i0` disposed); two generations never coexist -/
def exImmRec : List Op :=
  [.body [.read 0, .item 7, .cleanup 5, .write 0 3, .item 8], .act [] (.x .newOwner), .act [0] (.x (.sig 1)),
   .act [0] (.x (.imm 0 false false))]
example : (runOps {} exImmRec).log = [Ev.r 0, Ev.c 5 0 1 false, Ev.r 0, Ev.s 0 3, Ev.s 0 1] ∧
    ((runOps {} exImmRec).items.map (runOps {} exImmRec).arena.get) =
      [none, some (Val.num 7), some (Val.num 8), some (Val.num 8)] := by decide

/-- **F-C08-3** (regression witness against the code at the pinned commit, `legacyImm := true`):
`body r0,z0.2; body J0,r0; x o; in 0 x s5; in 0 x j1; set 0 1` — the `new_scoped` effect 1 writes the
signal its parent 0 reads; the parent's re-run (inside that write) cleans its scope up and so drops
effect 1, which is still running; the same write then notifies effect 1 itself, and it runs a third
time although it has been disposed -/
def exImmMidRun : List Op :=
  [.body [.read 0, .write 0 2], .body [.imm 0 true false, .read 0], .act [] (.x .newOwner),
   .act [0] (.x (.sig 5)), .act [0] (.x (.imm 1 false false)), .set 0 1]
theorem C08_imm_disposed_midrun_reruns :
    (runOps { legacyImm := true } exImmMidRun).immHit = true ∧
    rCount 1 (runOps { legacyImm := true } exImmMidRun).log = 3 := by decide
/-- the same history when `dispose` stops the effect at once (hooks/fix-c08-3.patch): two runs -/
theorem C08_imm_disposed_midrun_stops :
    (runOps { legacyImm := false } exImmMidRun).immHit = false ∧
    rCount 1 (runOps { legacyImm := false } exImmMidRun).log = 2 := by decide

/-- a task spawned with cancellation whose scope is cleaned up before its first poll never runs
(`body i4; x o; in 0 x K0; cleanup 0; idle`): no `R`, nothing allocated, the future is dropped … -/
example : rCount 0 (runOps {} [.body [.item 4], .act [] (.x .newOwner), .act [0] (.x (.spawn 0 true)),
      .act [] (.cleanup 0), .idle]).log = 0 ∧
    (runOps {} [.body [.item 4], .act [] (.x .newOwner), .act [0] (.x (.spawn 0 true)),
      .act [] (.cleanup 0), .idle]).items = [] ∧
    ((runOps {} [.body [.item 4], .act [] (.x .newOwner), .act [0] (.x (.spawn 0 true)),
      .act [] (.cleanup 0), .idle]).effs.map (·.done)) = [true] := by decide
/-- … cleaned up between its two polls it runs one segment; without a clean-up both -/
example : rCount 0 (runOps {} [.body [.item 4], .act [] (.x .newOwner), .act [0] (.x (.spawn 0 true)),
      .poll 0, .act [] (.cleanup 0), .idle]).log = 1 ∧
    rCount 0 (runOps {} [.body [.item 4], .act [] (.x .newOwner), .act [0] (.x (.spawn 0 true)),
      .idle]).log = 2 := by decide
/-- a task without cancellation keeps the owner it captured alive after the handle has been dropped;
the owner goes — and what the task allocated under it with it — when the future is dropped -/
example : ((runOps {} [.body [.item 4], .act [] (.x .newOwner), .act [0] (.x (.spawn 0 false)),
      .drop 0, .poll 0]).owners.map (·.alive)) = [true] ∧
    (runOps {} [.body [.item 4], .act [] (.x .newOwner), .act [0] (.x (.spawn 0 false)),
      .drop 0, .poll 0]).arena.len = 1 ∧
    ((runOps {} [.body [.item 4], .act [] (.x .newOwner), .act [0] (.x (.spawn 0 false)),
      .drop 0, .idle]).owners.map (·.alive)) = [false] ∧
    (runOps {} [.body [.item 4], .act [] (.x .newOwner), .act [0] (.x (.spawn 0 false)),
      .drop 0, .idle]).arena.len = 0 := by decide
/-- a `new_scoped` effect stops with the scope it was created in (`body r0,i7; x o; in 0 x s1;
in 0 x J0; cleanup 0`): its entry satisfies the hypotheses of `C08_disposed_effect_never_runs` -/
example : (runOps {} [.body [.read 0, .item 7], .act [] (.x .newOwner), .child 0, .act [0] (.x (.sig 1)),
      .act [1] (.x (.imm 0 true false)), .act [] (.cleanup 1), .set 0 2]).log.count (Ev.r 0) = 1 := by decide

/-- the same type provided at three levels (`x o; child 0; child 1; in 0 x p0.1; in 1 x p0.2; in 2 x p0.3`):
three takes from the innermost level return 3, 2, 1 — nearest first — and a lookup after each take sees
the next provider outward; a fourth take finds nothing -/
example : (runOps {} [.act [] (.x .newOwner), .child 0, .child 1, .act [0] (.x (.provide 0 1)),
      .act [1] (.x (.provide 0 2)), .act [2] (.x (.provide 0 3)),
      .act [2] (.x (.take 0)), .act [2] (.x (.use 0)), .act [2] (.x (.take 0)), .act [2] (.x (.use 0)),
      .act [2] (.x (.take 0)), .act [2] (.x (.use 0)), .act [2] (.x (.take 0))]).log =
    [Ev.t 0 (some 3), Ev.u 0 (some 2), Ev.t 0 (some 2), Ev.u 0 (some 1), Ev.t 0 (some 1), Ev.u 0 none,
     Ev.t 0 none] := by decide
/-- a take from the middle level leaves the inner provider alone; `update_context` changes the nearest
provider in place -/
example : (runOps {} [.act [] (.x .newOwner), .child 0, .child 1, .act [0] (.x (.provide 0 1)),
      .act [1] (.x (.provide 0 2)), .act [2] (.x (.provide 0 3)),
      .act [1] (.x (.take 0)), .act [2] (.x (.use 0)), .act [1] (.x (.use 0)),
      .act [1] (.x (.update 0 5)), .act [0] (.x (.use 0)), .act [2] (.x (.update 0 1)),
      .act [2] (.x (.use 0))]).log =
    [Ev.t 0 (some 2), Ev.u 0 (some 3), Ev.u 0 (some 1), Ev.u 0 (some 6), Ev.u 0 (some 6), Ev.u 0 (some 4),
     Ev.u 0 (some 4)] := by decide

end Leptos.Owner
