import LeptosModel.Proofs.OwnerTree
/-!
# C08 — owner disposal releases exactly what the scope created, exactly once

Property theorems over `Model/Owner`.  Histories are arbitrary lists of the harness's op lines
(`runOps`), passes are arbitrary runs of the cleanup machine (`runPass`).
-/
namespace Leptos.Owner

/-- the cleanup machine always runs to completion with the fuel `runPass` gives it
(so `cleanupOwner`, `dropOwner`, `disposeKey` are the complete passes, never a truncated one) -/
theorem C08_pass_terminates (st : Core) (fs : List Frame) :
    (runFrames (potential st fs) st fs).2 = [] :=
  runFrames_complete _ st fs (Nat.le_refl _)

/-- **at most once**: along every history no registered cleanup runs twice
(`cid` is the ghost serial number a cleanup gets when it is registered) -/
theorem C08_cleanup_never_twice (ops : List Op) (cid : Nat) :
    logCount cid (runOps {} ops).log ≤ 1 := by
  have h : CidInv (runOps {} ops).toCore [] :=
    CoreReach.inv (fun _ _ hp => CidInv.prim hp) (reach_runOps ops) CidInv.init
  have := (h cid).1
  unfold occ at this
  omega

/-- **stale handles**: a key that was handed out and no longer resolves never resolves again,
whatever happens later (slot versions only move forward) -/
theorem C08_stale_key_never_resolves (st : St) (k : Key) (hi : Issued st.arena k)
    (hn : st.arena.get k = none) (ops : List Op) : (runOps st ops).arena.get k = none := by
  have hle : ArenaLe st.arena (runOps st ops).arena := ArenaLe.reach (sr_runOps (SR.refl st) ops)
  exact (hle.dead k (dead_of_issued_get_none hi hn)).get_none

end Leptos.Owner
