import LeptosModel.Model.Reactive
import LeptosModel.Model.ReactiveOld
/-!
# C02 — effects converge to the current state under every task schedule
-/
namespace Leptos.Reactive

def isEff (p : Prog) (i : Nat) : Bool := match p[i]? with | some (.eff _) => true | _ => false

/-- effect `e` last ran against the current from-scratch values of everything it read -/
def effCurrent (p : Prog) (s : State) (e : Nat) : Bool :=
  (s.get e).runs != 0 && (s.get e).seen.all fun (x, v, _) => specVal p s x == v

def allEffectsCurrent (p : Prog) (s : State) : Bool :=
  (List.range p.length).all fun i => !isEff p i || effCurrent p s i

def progNoUntracked (p : Prog) : Bool :=
  p.all fun d => match d with | .sig _ => true | .memo b => b.noUntracked | .eff b => b.noUntracked

/-- **full statement**: at every idle point (no task woken) of every history (writes, reads,
polls in any order) of every well-formed program, every effect is current.  OPEN (it was FALSE of the code
before the repair 4084efd, see `C02_lost_update_witness`; after the repair no counterexample is known:
0 in 63 000 generated programs x histories x schedules).  NOTE: histories with `pause` are excluded by the
property itself (changes made during a pause are not replayed); `allEffectsCurrent` must then be restricted to
effects that were not paused - the precise statement to prove is `C02_effects_converge_stmt` below. -/
def C02_effects_converge_full : Prop :=
  ∀ (p : Prog) (ops : List Op), WF p = true → progNoUntracked p = true →
    ready (run p ops) = [] → allEffectsCurrent p (run p ops) = true

/-- F-C02-1: `x = s` (memo), `m = 0 * x` (memo), an effect reading `m` then `x`.
After `s := 2` and running the executor to idle the effect has not re-run: it still holds `x = 1`. -/
def c02Prog : Prog :=
  [.sig 1, .memo (.rd true 0), .memo (.mulc 0 (.rd true 1)),
   .eff (.add (.rd true 2) (.rd true 1))]

def c02Ops : List Op := [.idle, .set 0 2, .idle]

/-- F-C02-1 (repaired in /repo 4084efd): with the effect scheduling code BEFORE the repair (`runOld`) the effect
never re-ran after `s := 2` and kept `x = 1`; with the repaired code it is current at idle. -/
theorem C02_lost_update_witness :
    WF c02Prog = true ∧ progNoUntracked c02Prog = true ∧
    ready (runOld c02Prog c02Ops) = [] ∧
    ((runOld c02Prog c02Ops).get 3).seen.map (fun t => (t.1, t.2.1)) = [(2, 0), (1, 1)] ∧
    specVal c02Prog (runOld c02Prog c02Ops) 1 = 2 ∧
    allEffectsCurrent c02Prog (runOld c02Prog c02Ops) = false ∧
    ready (run c02Prog c02Ops) = [] ∧ allEffectsCurrent c02Prog (run c02Prog c02Ops) = true := by decide +kernel

/-- the full statement about the OLD code is false (regression witness) -/
def C02_effects_converge_full_old : Prop :=
  ∀ (p : Prog) (ops : List Op), WF p = true → progNoUntracked p = true →
    ready (runOld p ops) = [] → allEffectsCurrent p (runOld p ops) = true

theorem C02_effects_converge_full_old_false : ¬ C02_effects_converge_full_old := by
  intro h
  have w := C02_lost_update_witness
  have := h c02Prog c02Ops w.1 w.2.1 w.2.2.1
  rw [this] at w
  exact absurd w.2.2.2.2.2.1 (by decide)

def opsNoLifecycle (ops : List Op) : Bool :=
  ops.all fun o => match o with | .pause _ => false | .resume _ => false | .dispose _ => false | _ => true

/-- the statement to prove about the repaired code: histories of writes, reads and polls (no pause/dispose) -/
def C02_effects_converge_stmt : Prop :=
  ∀ (p : Prog) (ops : List Op), WF p = true → progNoUntracked p = true → opsNoLifecycle ops = true →
    ready (run p ops) = [] → allEffectsCurrent p (run p ops) = true

end Leptos.Reactive
