import LeptosModel.Model.Reactive
import LeptosModel.Model.ReactiveOld
import LeptosModel.Model.ReactiveSel
import LeptosModel.Proofs.ReactiveConv
import LeptosModel.Proofs.ReactiveLog
import LeptosModel.Proofs.ReactiveWake
import LeptosModel.Proofs.ReactiveSubs
import LeptosModel.Proofs.ReactiveGlitch
/-!
# C02 — effects converge to the current state under every task schedule
-/
namespace Leptos.Reactive

def isEff (p : Prog) (i : Nat) : Bool := match p[i]? with | some (.eff _) => true | _ => false

/-- effect `e` last ran against the current from-scratch values of everything it read -/
def effCurrent (p : Prog) (s : State) (e : Nat) : Bool :=
  (s.get e).runs != 0 && (s.get e).seen.all fun (x, v, _) => specVal p s x == v

def allEffectsCurrent (p : Prog) (s : State) : Bool :=
  (List.range p.length).all fun i => !isEff p i || effCurrent p s i

def progNoUntracked (p : Prog) : Bool :=
  p.all fun d => match d with | .sig _ => true | .memo b => b.noUntracked | .eff b => b.noUntracked

/-- **full statement**: at every idle point (no task woken) of every history (writes, reads,
polls in any order) of every well-formed program, every effect is current.  FALSE: of the code before the
repair 4084efd by `C02_lost_update_witness` (F-C02-1), and of the repaired code by the self-feedback witness
F-C02-2 (`C02_effects_converge_full_false` / `C02_effects_converge_stmt_false` below).  What IS proved about
the repaired code: `C02_effects_converge_readonly` (every effect whose own body does not write is current).
NOTE: histories with `pause` are excluded by the property itself (changes made during a pause are not
replayed) - see `C02_effects_converge_stmt`. -/
def C02_effects_converge_full : Prop :=
  ∀ (p : Prog) (ops : List Op), WF p = true → progNoUntracked p = true →
    ready (run p ops) = [] → allEffectsCurrent p (run p ops) = true

/-- F-C02-1: `x = s` (memo), `m = 0 * x` (memo), an effect reading `m` then `x`.
After `s := 2` and running the executor to idle the effect has not re-run: it still holds `x = 1`. -/
def c02Prog : Prog :=
  [.sig 1, .memo (.rd true 0), .memo (.mulc 0 (.rd true 1)),
   .eff (.add (.rd true 2) (.rd true 1))]

def c02Ops : List Op := [.idle, .set 0 2, .idle]

/-- F-C02-1 (repaired in /repo 4084efd): with the effect scheduling code BEFORE the repair (`runOld`) the effect
never re-ran after `s := 2` and kept `x = 1`; with the repaired code it is current at idle. -/
theorem C02_lost_update_witness :
    WF c02Prog = true ∧ progNoUntracked c02Prog = true ∧
    ready (runOld c02Prog c02Ops) = [] ∧
    ((runOld c02Prog c02Ops).get 3).seen.map (fun t => (t.1, t.2.1)) = [(2, 0), (1, 1)] ∧
    specVal c02Prog (runOld c02Prog c02Ops) 1 = 2 ∧
    allEffectsCurrent c02Prog (runOld c02Prog c02Ops) = false ∧
    ready (run c02Prog c02Ops) = [] ∧ allEffectsCurrent c02Prog (run c02Prog c02Ops) = true := by decide +kernel

/-- the full statement about the OLD code is false (regression witness) -/
def C02_effects_converge_full_old : Prop :=
  ∀ (p : Prog) (ops : List Op), WF p = true → progNoUntracked p = true →
    ready (runOld p ops) = [] → allEffectsCurrent p (runOld p ops) = true

theorem C02_effects_converge_full_old_false : ¬ C02_effects_converge_full_old := by
  intro h
  have w := C02_lost_update_witness
  have := h c02Prog c02Ops w.1 w.2.1 w.2.2.1
  rw [this] at w
  exact absurd w.2.2.2.2.2.1 (by decide)

def opsNoLifecycle (ops : List Op) : Bool :=
  ops.all fun o => match o with | .pause _ => false | .resume _ => false | .dispose _ => false | _ => true

/-- the statement about the repaired code for histories of writes, reads and polls (no pause/dispose);
FALSE as it stands (`C02_effects_converge_stmt_false`, F-C02-2); proved for the effects that do not write:
`C02_effects_converge_readonly`. -/
def C02_effects_converge_stmt : Prop :=
  ∀ (p : Prog) (ops : List Op), WF p = true → progNoUntracked p = true → opsNoLifecycle ops = true →
    ready (run p ops) = [] → allEffectsCurrent p (run p ops) = true

theorem run_append (p : Prog) (a b : List Op) :
    run p (a ++ b) = b.foldl (fun s o => (step p s o).1) (run p a) := by
  simp only [run, List.foldl_append]

theorem isEff_kind {p : Prog} {s : State} (h : InvR p s) {e : Nat} (he : isEff p e = true) :
    (s.get e).kind = .eff := by
  simp only [isEff] at he
  cases hp : p[e]? with
  | none => rw [hp] at he; cases he
  | some d =>
    rw [h.kind e d hp]
    cases d <;> simp_all [kindOf]

/-! ## F-C02-2 and the theorem for effects that do not write -/

/-- F-C02-2 (self-feedback-stale): `m = s + s`, an effect that reads `m`, writes `s := m`, reads `m` again.
The write makes `m` stale, the second read recomputes `m` and notifies every subscriber of `m`
EXCEPT the current observer — the running effect itself; the effect is only `mark_check`-ed, its
next source walk finds `m` unchanged, and it is never re-run: it keeps the stale first read. -/
def c02SelfProg : Prog :=
  [.sig 0, .memo (.add (.rd true 0) (.rd true 0)), .eff (.seq (.wr 0 (.rd true 1)) (.rd true 1))]

def c02SelfOps : List Op := [.set 0 1, .idle]

theorem C02_self_feedback_witness :
    WF c02SelfProg = true ∧ progNoUntracked c02SelfProg = true ∧ opsNoLifecycle c02SelfOps = true ∧
    ready (run c02SelfProg c02SelfOps) = [] ∧
    ((run c02SelfProg c02SelfOps).get 2).seen.map (fun t => (t.1, t.2.1)) = [(1, 2), (1, 4)] ∧
    specVal c02SelfProg (run c02SelfProg c02SelfOps) 1 = 4 ∧
    allEffectsCurrent c02SelfProg (run c02SelfProg c02SelfOps) = false := by decide +kernel

/-- `C02_effects_converge_stmt` is FALSE as stated (known finding F-C02-2) -/
theorem C02_effects_converge_stmt_false : ¬ C02_effects_converge_stmt := by
  intro h
  have w := C02_self_feedback_witness
  have := h c02SelfProg c02SelfOps w.1 w.2.1 w.2.2.1 w.2.2.2.1
  rw [this] at w
  exact absurd w.2.2.2.2.2.2 (by decide)

theorem C02_effects_converge_full_false : ¬ C02_effects_converge_full := by
  intro h
  have w := C02_self_feedback_witness
  have := h c02SelfProg c02SelfOps w.1 w.2.1 w.2.2.2.1
  rw [this] at w
  exact absurd w.2.2.2.2.2.2 (by decide)

/-- the own body of effect `i` contains no write -/
def effReadOnly (p : Prog) (i : Nat) : Bool := (bodyOf p i).noWrite

theorem progNoUntracked_eq (p : Prog) : progNoUntracked p = bodiesTracked p := rfl

/-- **proved**: same hypotheses as `C02_effects_converge_stmt`; at every idle point every effect whose
OWN body does not write is current (other effects of the program may write signals).
Proof: `Proofs/ReactiveConv.lean` (invariant `InvC`: a non-notified effect has all memo sources clean
and, unless flagged dirty, has seen the cached values; `effLoop_specC`). -/
theorem C02_effects_converge_readonly :
    ∀ (p : Prog) (ops : List Op), WF p = true → progNoUntracked p = true → opsNoLifecycle ops = true →
      ready (run p ops) = [] →
      ∀ i, isEff p i = true → effReadOnly p i = true → effCurrent p (run p ops) i = true := by
  intro p ops hwf ht hops hidle i hi hro
  have hplain : ∀ o ∈ ops, o.plain = true := by
    intro o ho
    simp only [opsNoLifecycle, List.all_eq_true] at hops
    have := hops o ho
    cases o <;> simp_all [Op.plain]
  have hq := run_quiet hwf (memoOK_of_wf hwf) (effOK_of_wf hwf ht) ops
  have hk : ((run p ops).get i).kind = .eff := by
    simp only [isEff] at hi
    cases hp : p[i]? with
    | none => rw [hp] at hi; cases hi
    | some d =>
      rw [hq.inv.kind i d hp]
      cases d <;> simp_all [kindOf]
  obtain ⟨hruns, hvals⟩ := effects_current hwf ht ops hplain hidle i hk (NoFB.of_noWrite hro)
  simp only [effCurrent, Bool.and_eq_true, bne_iff_ne, ne_eq, List.all_eq_true, beq_iff_eq]
  exact ⟨hruns, fun z hz => hvals z hz⟩

/-- stronger than idle: at ANY point between two operations, a read-only effect without a pending
notification (`chan = false`: its task has nothing to do) is current -/
theorem C02_unnotified_effect_current :
    ∀ (p : Prog) (ops : List Op), WF p = true → progNoUntracked p = true → opsNoLifecycle ops = true →
      ∀ i, isEff p i = true → effReadOnly p i = true → ((run p ops).get i).chan = false →
        effCurrent p (run p ops) i = true := by
  intro p ops hwf ht hops i hi hro hch
  have hplain : ∀ o ∈ ops, o.plain = true := by
    intro o ho
    simp only [opsNoLifecycle, List.all_eq_true] at hops
    have := hops o ho
    cases o <;> simp_all [Op.plain]
  have hq := run_quiet hwf (memoOK_of_wf hwf) (effOK_of_wf hwf ht) ops
  have hk : ((run p ops).get i).kind = .eff := by
    simp only [isEff] at hi
    cases hp : p[i]? with
    | none => rw [hp] at hi; cases hi
    | some d =>
      rw [hq.inv.kind i d hp]
      cases d <;> simp_all [kindOf]
  obtain ⟨hruns, hvals⟩ := effect_current_of_unnotified hwf ht ops hplain i hk (NoFB.of_noWrite hro) hch
  simp only [effCurrent, Bool.and_eq_true, bne_iff_ne, ne_eq, List.all_eq_true, beq_iff_eq]
  exact ⟨hruns, fun z hz => hvals z hz⟩

/-- corollary: if no effect of the program writes, all effects are current at idle -/
theorem C02_effects_converge_nowrite :
    ∀ (p : Prog) (ops : List Op), WF p = true → progNoUntracked p = true → opsNoLifecycle ops = true →
      (∀ i, isEff p i = true → effReadOnly p i = true) →
      ready (run p ops) = [] → allEffectsCurrent p (run p ops) = true := by
  intro p ops hwf ht hops hro hidle
  simp only [allEffectsCurrent, List.all_eq_true, List.mem_range, Bool.or_eq_true, Bool.not_eq_true']
  intro i _
  cases hi : isEff p i with
  | false => exact .inl rfl
  | true => exact .inr (C02_effects_converge_readonly p ops hwf ht hops hidle i hi (hro i hi))

/-- **proved** (stronger than `C02_effects_converge_readonly`): effects may write, provided no effect
writes a signal on which one of the nodes it reads depends (`noSelfFeedback`, decidable, defined in
`Proofs/ReactiveBasic.lean` from the static read/write sets of the bodies; it excludes F-C02-2);
then ALL effects are current at every idle point. -/
theorem C02_effects_converge_nofeedback :
    ∀ (p : Prog) (ops : List Op), WF p = true → progNoUntracked p = true → opsNoLifecycle ops = true →
      noSelfFeedback p = true → ready (run p ops) = [] → allEffectsCurrent p (run p ops) = true := by
  intro p ops hwf ht hops hnf hidle
  have hplain : ∀ o ∈ ops, o.plain = true := by
    intro o ho
    simp only [opsNoLifecycle, List.all_eq_true] at hops
    have := hops o ho
    cases o <;> simp_all [Op.plain]
  have hq := run_quiet hwf (memoOK_of_wf hwf) (effOK_of_wf hwf ht) ops
  simp only [allEffectsCurrent, List.all_eq_true, List.mem_range, Bool.or_eq_true, Bool.not_eq_true']
  intro i _
  cases hi : isEff p i with
  | false => exact .inl rfl
  | true =>
    right
    have hk := isEff_kind hq.inv hi
    obtain ⟨b, hb⟩ : ∃ b, p[i]? = some (.eff b) := by
      simp only [isEff] at hi
      cases hp : p[i]? with
      | none => rw [hp] at hi; cases hi
      | some d => cases d <;> simp_all
    obtain ⟨hruns, hvals⟩ := effects_current hwf ht ops hplain hidle i hk (NoFB.of_noSelfFeedback hwf hnf hb)
    simp only [effCurrent, Bool.and_eq_true, bne_iff_ne, ne_eq, List.all_eq_true, beq_iff_eq]
    exact ⟨hruns, fun z hz => hvals z hz⟩

/-- non-vacuity: an effect that reads memo `m = s0` and writes `s1` (no feedback), observed by a second effect -/
example :
    let p : Prog := [.sig 0, .sig 0, .memo (.rd true 0), .eff (.wr 1 (.rd true 2)), .eff (.rd true 1)]
    let ops : List Op := [.idle, .set 0 3, .idle]
    WF p = true ∧ progNoUntracked p = true ∧ noSelfFeedback p = true ∧ effReadOnly p 3 = false ∧
    ready (run p ops) = [] ∧ allEffectsCurrent p (run p ops) = true ∧
    ((run p ops).get 1).val = some 3 ∧ ((run p ops).get 4).runs = 2 := by decide +kernel

/-- the former OPEN statement, now `C02_effects_converge_nofeedback` -/
def C02_effects_converge_nofeedback_stmt : Prop :=
  ∀ (p : Prog) (ops : List Op), WF p = true → progNoUntracked p = true → opsNoLifecycle ops = true →
    noSelfFeedback p = true → ready (run p ops) = [] → allEffectsCurrent p (run p ops) = true

theorem C02_effects_converge_nofeedback_stmt_holds : C02_effects_converge_nofeedback_stmt :=
  C02_effects_converge_nofeedback

example : noSelfFeedback c02SelfProg = false ∧ noSelfFeedback c02Prog = true := by decide +kernel

/-- non-vacuity of `C02_effects_converge_readonly`: the repaired F-C02-1 program (a read-only effect) -/
example :
    WF c02Prog = true ∧ progNoUntracked c02Prog = true ∧ effReadOnly c02Prog 3 = true ∧
    opsNoLifecycle [.idle, .set 0 2, .idle, .set 0 5, .idle] = true ∧
    ready (run c02Prog [.idle, .set 0 2, .idle, .set 0 5, .idle]) = [] ∧
    ((run c02Prog [.idle, .set 0 2, .idle, .set 0 5, .idle]).get 3).runs = 3 ∧
    effCurrent c02Prog (run c02Prog [.idle, .set 0 2, .idle, .set 0 5, .idle]) 3 = true := by
  decide +kernel

/-! ## lifecycle clauses: a disposed / paused effect never runs (all WF programs, all histories) -/

/-- **disposed effects never run**: after `.dispose e` no `Ev.ran e` is ever logged again, whatever
happens later (writes, reads, polls, pause / resume, further disposes). -/
theorem C02_disposed_never_runs :
    ∀ (p : Prog) (ops₁ ops₂ : List Op) (e : Nat), WF p = true → isEff p e = true →
      ∃ suf, (run p (ops₁ ++ [.dispose e] ++ ops₂)).log = (run p (ops₁ ++ [.dispose e])).log ++ suf ∧
        Ev.ran e ∉ suf := by
  intro p ops₁ ops₂ e hwf he
  rw [run_append p (ops₁ ++ [Op.dispose e]) ops₂]
  have ht := run_topJ (memoOK_of_wf hwf) (effOKU_of_wf hwf) (ops₁ ++ [Op.dispose e])
  have hk := isEff_kind ht.quiet.inv he
  refine norun_suffix (dead := true) hwf ops₂ (fun h => by cases h) _ ht hk ?_
  simp only [if_true]
  -- the dispose step leaves `alive = false`
  rw [run_append p ops₁ [Op.dispose e]]
  have ht0 := run_topJ (memoOK_of_wf hwf) (effOKU_of_wf hwf) ops₁
  have hk0 := isEff_kind ht0.quiet.inv he
  have hlt : e < (run p ops₁).nodes.length := (run p ops₁).lt_of_kind_ne (by rw [hk0]; simp)
  generalize run p ops₁ = s at hk0 hlt
  simp only [List.foldl_cons, List.foldl_nil, step, hk0, beq_self_eq_true, Bool.true_and]
  cases ha : (s.get e).alive with
  | false => simp [ha]
  | true =>
    simp only [if_true]
    split
    · rw [State.emit_get, State.get_upd_same _ _ hlt]
    · rw [State.get_upd_same _ _ hlt]

/-- **paused effects never run**: between `.pause e` and the next `.resume e` no `Ev.ran e` is logged. -/
theorem C02_paused_never_runs :
    ∀ (p : Prog) (ops₁ ops₂ : List Op) (e : Nat), WF p = true → isEff p e = true →
      (∀ o ∈ ops₂, o ≠ .resume e) →
      ∃ suf, (run p (ops₁ ++ [.pause e] ++ ops₂)).log = (run p (ops₁ ++ [.pause e])).log ++ suf ∧
        Ev.ran e ∉ suf := by
  intro p ops₁ ops₂ e hwf he hres
  rw [run_append p (ops₁ ++ [Op.pause e]) ops₂]
  have ht := run_topJ (memoOK_of_wf hwf) (effOKU_of_wf hwf) (ops₁ ++ [Op.pause e])
  have hk := isEff_kind ht.quiet.inv he
  refine norun_suffix (dead := false) hwf ops₂ (fun _ => hres) _ ht hk ?_
  simp only [Bool.false_eq_true, if_false]
  rw [run_append p ops₁ [Op.pause e]]
  have ht0 := run_topJ (memoOK_of_wf hwf) (effOKU_of_wf hwf) ops₁
  have hk0 := isEff_kind ht0.quiet.inv he
  have hlt : e < (run p ops₁).nodes.length := (run p ops₁).lt_of_kind_ne (by rw [hk0]; simp)
  generalize run p ops₁ = s at hk0 hlt
  simp only [List.foldl_cons, List.foldl_nil, step, hk0, beq_self_eq_true, if_true]
  rw [State.get_upd_same _ _ hlt]

/-- non-vacuity: the effect of `c02Prog` runs once, is disposed, and a later write + idle does not run it;
paused: the write during the pause is not replayed, after `resume` + write it runs again -/
example :
    ((run c02Prog [.idle, .dispose 3, .set 0 2, .idle]).get 3).runs = 1 ∧
    ((run c02Prog [.idle, .pause 3, .set 0 2, .idle]).get 3).runs = 1 ∧
    ((run c02Prog [.idle, .pause 3, .set 0 2, .idle, .resume 3, .set 0 5, .idle]).get 3).runs = 2 := by
  decide +kernel

/-! ## wake order

`subs` of a node is its subscriber list in subscription order: `track` appends the observer at the end
(or does nothing if it is already subscribed), `clearSources` removes it without permuting the others,
and nothing else touches the lists (`C02_subs_order_kept`, for EVERY state and operation).
A write walks `subs` of the signal in that order; an effect that is not (transitively, through a memo)
downstream of ANOTHER subscriber of the signal is woken exactly at its own position. -/

/-- **subscriber lists keep their order** (all states, all ops, no hypothesis): after any operation every
subscriber list consists of some of the old subscribers in their old relative order, followed by the
newly subscribed ones.  Primitive forms: `track_subsKept`, `clearSources_subsKept`
(`Proofs/ReactiveSubs.lean`). -/
theorem C02_subs_order_kept :
    ∀ (p : Prog) (s : State) (o : Op) (y : Nat),
      ∃ a b, ((step p s o).1.get y).subs = a ++ b ∧ List.Sublist a (s.get y).subs :=
  fun p s o y => step_subsKept p s o y

/-- **wake order, any state satisfying the data invariant**: the `woke` events logged by a write to `x`,
restricted to effects that are not downstream of another subscriber of `x` (`directOnly`,
`Proofs/ReactiveWake.lean`), form a sublist of `subs` of `x`, i.e. they appear in subscription order. -/
theorem C02_wake_order_inv :
    ∀ (p : Prog) (s : State) (f x : Nat) (v : Int), InvR p s →
      ∃ suf, (setSignal f s x v).log = s.log ++ suf ∧
        List.Sublist ((wokeIds suf).filter (directOnly s x)) (s.get x).subs :=
  fun _ s f x v h => setSignal_wake h f x v (directOnly s x) (fun w hd => directOnly_spec h x w hd)

/-- **wake order** along every history of every WF program: `step (.set i v)` wakes the direct-only
effect subscribers of signal `i` in the order in which they subscribed -/
theorem C02_wake_order :
    ∀ (p : Prog) (ops : List Op) (i : Nat) (v : Int), WF p = true →
      ∃ suf, (step p (run p ops) (.set i v)).1.log = (run p ops).log ++ suf ∧
        List.Sublist ((wokeIds suf).filter (directOnly (run p ops) i)) ((run p ops).get i).subs := by
  intro p ops i v hwf
  have hq := run_quietU hwf ops
  simp only [step]
  split
  · exact C02_wake_order_inv p _ _ i v hq.inv
  · exact ⟨[], by simp, by simp [wokeIds]⟩

/-- non-vacuity: three effects created in the order 1,2,3 subscribe to the signal in the order 3,1,2
(the executor polls them in that order); a write wakes them in subscription order, not creation order -/
example :
    let p : Prog := [.sig 0, .eff (.rd true 0), .eff (.rd true 0), .eff (.rd true 0)]
    let ops : List Op := [.poll 2, .poll 0, .poll 0]
    WF p = true ∧ ((run p ops).get 0).subs = [3, 1, 2] ∧
    wokeIds ((step p (run p ops) (.set 0 7)).1.log.drop (run p ops).log.length) = [3, 1, 2] ∧
    (List.range 4).filter (directOnly (run p ops) 0) = [0, 1, 2, 3] := by decide +kernel

/-- … and the restriction to direct-only effects is necessary: `e2` (node 4) is also downstream of memo 1,
so it is woken when the memo is marked, BEFORE `e1` (node 3) although it subscribed to the signal later -/
example :
    let p : Prog := [.sig 0, .memo (.rd true 0), .sig 0, .eff (.rd true 0), .eff (.add (.rd true 1) (.rd true 0))]
    let ops : List Op := [.read 1, .poll 0, .poll 0]
    WF p = true ∧ ((run p ops).get 0).subs = [1, 3, 4] ∧
    wokeIds ((step p (run p ops) (.set 0 7)).1.log.drop (run p ops).log.length) = [4, 3] ∧
    directOnly (run p ops) 0 3 = true ∧ directOnly (run p ops) 0 4 = false := by decide +kernel

/-! ## no glitch

"Every value an effect reads during one run equals the from-scratch value for the signal state at that
moment."  The log does not record states, so the statement is about the log as a whole: there is a trace
of signal environments, one before each event, which starts at the signal values of the state before,
ends at those of the state after, changes ONLY at a `set i` event and only at signal `i`, and such that
every `rdv self x v` event — a tracked read made by an effect body, or by a memo body pulled while it
runs — carries `v = scratch` of `x` for the environment current at that position. -/

/-- only the memo bodies need tracked reads (an untracked read logs no `rdv`) -/
def memosNoUntracked (p : Prog) : Bool :=
  p.all fun d => match d with | .memo b => b.noUntracked | _ => true

/-- the piece of log `l` is consistent with a trace of signal environments from `env0` to `envN` -/
def LogConsistent (p : Prog) (env0 : Nat → Int) (l : List Ev) (envN : Nat → Int) : Prop :=
  ∃ envs : Nat → Nat → Int,
    (∀ i v0, p[i]? = some (.sig v0) → envs 0 i = env0 i) ∧
    (∀ i v0, p[i]? = some (.sig v0) → envs l.length i = envN i) ∧
    ∀ k (hk : k < l.length),
      (∀ i v0, p[i]? = some (.sig v0) → l[k] ≠ .set i → envs (k + 1) i = envs k i) ∧
      (∀ self x v, l[k] = .rdv self x v → v = scratch p (envs k) (fuelFor p) x)

def consEnv (env : Nat → Int) (envs : Nat → Nat → Int) : Nat → Nat → Int
  | 0 => env
  | k + 1 => envs k

theorem GlitchFree.consistent {p : Prog} {env env' : Nat → Int} {l : List Ev}
    (h : GlitchFree p env l env') : LogConsistent p env l env' := by
  induction h with
  | @nil env env' h =>
    exact ⟨fun _ => env, fun _ _ _ => rfl, fun i v hd => h i v hd, fun k hk => absurd hk (Nat.not_lt_zero _)⟩
  | @rdv env env' self x v rest hv _ ih =>
    obtain ⟨envs, h0, hN, hstep⟩ := ih
    refine ⟨consEnv env envs, fun _ _ _ => rfl, hN, fun k hk => ?_⟩
    cases k with
    | zero =>
      refine ⟨fun i v0 hd _ => h0 i v0 hd, fun self' x' v' he => ?_⟩
      simp only [List.getElem_cons_zero, Ev.rdv.injEq] at he
      obtain ⟨_, rfl, rfl⟩ := he
      exact hv.symm
    | succ k => exact hstep k (by simpa using hk)
  | @set env env1 env' id rest hs _ ih =>
    obtain ⟨envs, h0, hN, hstep⟩ := ih
    refine ⟨consEnv env envs, fun _ _ _ => rfl, hN, fun k hk => ?_⟩
    cases k with
    | zero =>
      refine ⟨fun i v0 hd hne => ?_, fun self' x' v' he => (by simp at he)⟩
      have hid : i ≠ id := by intro hc; subst hc; exact hne rfl
      exact (h0 i v0 hd).trans (hs i v0 hd hid).symm
    | succ k => exact hstep k (by simpa using hk)
  | @skip env env' ev rest hp _ ih =>
    obtain ⟨envs, h0, hN, hstep⟩ := ih
    refine ⟨consEnv env envs, fun _ _ _ => rfl, hN, fun k hk => ?_⟩
    cases k with
    | zero =>
      refine ⟨fun i v0 hd _ => h0 i v0 hd, fun self' x' v' he => ?_⟩
      exact absurd he (hp.1 self' x' v')
    | succ k => exact hstep k (by simpa using hk)

theorem memoTracked_of_memos {p : Prog} (ht : memosNoUntracked p = true) : MemoTracked p := by
  intro m b hb
  have hmem : NodeDef.memo b ∈ p := List.mem_of_getElem? hb
  simp only [memosNoUntracked, List.all_eq_true] at ht
  exact ht _ hmem

/-- **C02 no glitch** (every WF program whose memo bodies use tracked reads, every history, every next
operation, writer effects included): the log written by the operation is consistent with a trace of
signal environments from the state before to the state after; every tracked read logged while an
effect body (or a memo body it pulls) runs carries the from-scratch value for the signal state at that
moment. -/
theorem C02_no_glitch :
    ∀ (p : Prog) (ops : List Op) (o : Op), WF p = true → memosNoUntracked p = true →
      ∃ suf, (step p (run p ops) o).1.log = (run p ops).log ++ suf ∧
        LogConsistent p (envOf (run p ops)) suf (envOf (step p (run p ops) o).1) := by
  intro p ops o hwf ht
  obtain ⟨suf, hl, hg⟩ := step_glitchFree hwf (memoTracked_of_memos ht) ops o
  exact ⟨suf, hl, hg.consistent⟩

/-- the same for the whole log of a history, from the initial signal values -/
theorem C02_no_glitch_run :
    ∀ (p : Prog) (ops : List Op), WF p = true → memosNoUntracked p = true →
      LogConsistent p (envOf (initState p)) (run p ops).log (envOf (run p ops)) := by
  intro p ops hwf ht
  obtain ⟨suf, hl, hg⟩ := run_glitchFree hwf (memoTracked_of_memos ht) ops
  have : (run p ops).log = suf := by rw [hl]; rfl
  rw [this]
  exact hg.consistent

/-- **simple form**: an operation that logs no signal write (`read`, or `poll`/`idle` running effects whose
bodies do not write) logs only reads of the from-scratch value for the state before the operation
(which has the same signal values as the state after it) -/
theorem C02_no_glitch_noset :
    ∀ (p : Prog) (ops : List Op) (o : Op), WF p = true → memosNoUntracked p = true →
      ∃ suf, (step p (run p ops) o).1.log = (run p ops).log ++ suf ∧
        ((∀ i, Ev.set i ∉ suf) → ∀ self x v, Ev.rdv self x v ∈ suf →
          v = specVal p (run p ops) x ∧ v = specVal p (step p (run p ops) o).1 x) := by
  intro p ops o hwf ht
  obtain ⟨suf, hl, hg⟩ := step_glitchFree hwf (memoTracked_of_memos ht) ops o
  refine ⟨suf, hl, fun hn self x v hm => ?_⟩
  have := hg.noset hn
  have hv := this.2 self x v hm
  exact ⟨hv, by rw [hv]; exact scratch_env_congr this.1 _ _⟩

/-- the diamond: `a = s + 1`, `b = 2 * s`, an effect reading `a + b` -/
def c02Diamond : Prog :=
  [.sig 1, .memo (.add (.rd true 0) (.lit 1)), .memo (.mulc 2 (.rd true 0)),
   .eff (.add (.rd true 1) (.rd true 2))]

/-- non-vacuity: the log of the diamond under `idle, s := 5, idle`: the effect (node 3) reads `a, b = 2, 2`
in its first run and `6, 10` in its second one - never the mixed pair `6, 2` -/
example :
    WF c02Diamond = true ∧ memosNoUntracked c02Diamond = true ∧
    (run c02Diamond [.idle, .set 0 5, .idle]).log =
      [.ran 3, .ran 1, .rdv 1 0 1, .changed 1, .rdv 3 1 2, .ran 2, .rdv 2 0 1, .changed 2, .rdv 3 2 2,
       .set 0, .woke 3,
       .ran 1, .rdv 1 0 5, .changed 1, .woke 3, .ran 3, .rdv 3 1 6, .ran 2, .rdv 2 0 5, .changed 2,
       .rdv 3 2 10] := by decide +kernel

/-- … and `LogConsistent` is not trivially true: a log in which the effect reads the stale `b = 2` after
`s := 5` is rejected (`b` is `2` only for `s = 1`, but then `a` is `2`, not `6`) -/
example : ¬ ∃ env', LogConsistent c02Diamond (envOf (run c02Diamond [.idle]))
    [.set 0, .rdv 3 1 6, .rdv 3 2 2] env' := by
  rintro ⟨env', envs, _, _, hstep⟩
  have h1 := (hstep 1 (by decide)).2 3 1 6 rfl
  have h2 := (hstep 2 (by decide)).2 3 2 2 rfl
  have e12 := (hstep 1 (by decide)).1 0 1 rfl (by simp)
  have ha : ∀ env, scratch c02Diamond env (fuelFor c02Diamond) 1 = env 0 + 1 := fun _ => rfl
  have hb : ∀ env, scratch c02Diamond env (fuelFor c02Diamond) 2 = 2 * env 0 := fun _ => rfl
  rw [ha] at h1
  rw [hb, e12] at h2
  omega

/-! ## Selector with a caller-supplied comparator (`Selector::new_with_fn`)

The selector keeps the previous source value; when the value changes it SCANS every registered key
and notifies `k` iff `f k next ∨ f k prev`. A reader of `selected(k)` re-reads on notification. The
statements below are for every comparator `f`, key and value type and every sequence of source
values. -/

section Selector
variable {κ α : Type} [DecidableEq α]

/-- the flag a reader of `selected(k)` sees when the selector holds `v` -/
def selFlag (f : κ → α → Bool) (v : Option α) (k : κ) : Bool :=
  match v with | some v => f k v | none => false

/-- keys notified by the scan when the value goes from `prev` to `next` -/
def selNotified (f : κ → α → Bool) (prev : Option α) (next : α) (k : κ) : Bool :=
  f k next || selFlag f prev k

/-- one source change as seen by a reader of key `k`: (value the selector holds, flag the reader last saw) -/
def selReaderStep (notified : Option α → α → κ → Bool) (f : κ → α → Bool) (k : κ)
    (st : Option α × Bool) (v : α) : Option α × Bool :=
  if st.1 = some v then st
  else (some v, if notified st.1 v k then f k v else st.2)

omit [DecidableEq α] in
/-- the scan is complete: a key whose flag differs between the old and the new value is notified -/
theorem C02_selector_scan_complete (f : κ → α → Bool) (prev : Option α) (next : α) (k : κ)
    (h : selFlag f prev k ≠ selFlag f (some next) k) : selNotified f prev next k = true := by
  unfold selNotified
  cases hp : selFlag f prev k <;> cases hn : f k next <;> simp_all [selFlag]

/-- after ANY sequence of source values every reader of every key holds the flag of the current
value (it re-read whenever it was notified, and was notified whenever its flag changed) -/
theorem C02_selector_readers_current (f : κ → α → Bool) (k : κ) (v0 : α) (vs : List α) :
    let st := vs.foldl (selReaderStep (selNotified f) f k) (some v0, f k v0)
    st.2 = selFlag f st.1 k ∧ st.1 = some ((v0 :: vs).getLast (by simp)) := by
  suffices h : ∀ (vs : List α) (v : α) (b : Bool), b = f k v →
      let st := vs.foldl (selReaderStep (selNotified f) f k) (some v, b)
      st.2 = selFlag f st.1 k ∧ st.1 = some ((v :: vs).getLast (by simp)) from h vs v0 _ rfl
  intro vs
  induction vs with
  | nil => intro v b hb; simp [selFlag, hb]
  | cons w ws ih =>
    intro v b hb
    simp only [List.foldl_cons]
    by_cases hw : (some v : Option α) = some w
    · have : v = w := Option.some.inj hw
      subst this
      have := ih v b hb
      simpa [selReaderStep, List.getLast_cons] using this
    · have hstep : selReaderStep (selNotified f) f k (some v, b) w =
          (some w, if selNotified f (some v) w k then f k w else b) := by
        simp [selReaderStep, hw]
      rw [hstep]
      have hb' : (if selNotified f (some v) w k then f k w else b) = f k w := by
        by_cases hn : selNotified f (some v) w k = true
        · simp [hn]
        · have : ¬ (selFlag f (some v) k ≠ selFlag f (some w) k) := fun hne =>
            hn (C02_selector_scan_complete f (some v) w k hne)
          simp only [selFlag, ne_eq, Decidable.not_not] at this
          simp [hn, hb, this]
      have := ih w _ hb'
      simpa [List.getLast_cons] using this

/-- the round-5 variant that looks up only the keys EQUAL to the old and the new value -/
def selNotifiedLookup (f : Nat → Nat → Bool) (prev : Option Nat) (next : Nat) (k : Nat) : Bool :=
  (prev == some k || next == k) && selNotified f prev next k

/-- the comparator the `selc` op drives: key `k` matches the values `k` and `k + 1` -/
def selcF (k v : Nat) : Bool := v == k || v == k + 1

/-- … with it the look-up variant leaves a reader stale (key 4 matches 5, the selector moves 0 → 5,
only the keys 0 and 5 are looked up), while the scan does not -/
theorem C02_selector_lookup_stale_witness :
    ([5].foldl (selReaderStep (selNotifiedLookup selcF) selcF 4) (some 0, selcF 4 0)).2 = false ∧
    selcF 4 5 = true ∧
    ([5].foldl (selReaderStep (selNotified selcF) selcF 4) (some 0, selcF 4 0)).2 = true := by decide

/-- for equality the two coincide, which is why `Selector::new` cannot tell them apart -/
theorem C02_selector_lookup_eq_scan_for_equality (prev : Option Nat) (next k : Nat) :
    selNotifiedLookup (fun k v => v == k) prev next k = selNotified (fun k v => v == k) prev next k := by
  cases prev <;> simp [selNotifiedLookup, selNotified, selFlag] <;> grind

end Selector

/-- the driver's desugaring of `selc` uses exactly this rule: its flag expression denotes `selcF` … -/
theorem selcFlag_eval (ρ : Nat → Int) (x : Expr) (j : Nat) :
    evalPure ρ (selcFlag x j) =
      if evalPure ρ x = j ∨ evalPure ρ x = j + 1 then 1 else 0 := by
  simp only [selcFlag, evalPure]
  by_cases h1 : evalPure ρ x = (j : Int) <;> by_cases h2 : evalPure ρ x = (j : Int) + 1 <;>
    simp [h1, h2] <;> omega

/-- … and its write guard is "value changed ∧ (f j next ∨ f j prev)" -/
theorem C02_selc_desugar_guard (ρ : Nat → Int) (e : Expr) (p j : Nat) :
    (evalPure ρ (.add e (.mulc (-1) (.rd false p))) ≠ 0 ↔ evalPure ρ e ≠ ρ p) ∧
    (evalPure ρ (.add (selcFlag e j) (selcFlag (.rd false p) j)) ≠ 0 ↔
      ((evalPure ρ e = j ∨ evalPure ρ e = j + 1) ∨ (ρ p = j ∨ ρ p = j + 1))) := by
  constructor
  · simp only [evalPure]; omega
  · have h1 := selcFlag_eval ρ e j
    have h2 := selcFlag_eval ρ (.rd false p) j
    simp only [evalPure] at h1 h2 ⊢
    rw [h1, h2]
    by_cases a : (evalPure ρ e = j ∨ evalPure ρ e = j + 1) <;>
      by_cases b : (ρ p = j ∨ ρ p = j + 1) <;> simp [a, b]

end Leptos.Reactive
