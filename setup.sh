#!/bin/sh
# Offline build of the whole framework from files on disk (MANIFEST.setup_cmd).
set -e
cd "$(dirname "$0")"
export CARGO_NET_OFFLINE=true
[ -f harness/Cargo.lock ] || cp /repo/Cargo.lock harness/Cargo.lock
for p in props/C*.py; do
  id=$(basename "$p" .py)
  lc=$(echo "$id" | tr 'A-Z' 'a-z')
  echo "== $id"
  (cd lean && lake build "LeptosModel.Theorems.$id" "lm_$lc" 2>&1 | tail -3)
  (cd harness && cargo build --release --offline -p "hx-$lc" 2>&1 | tail -3)
done
echo setup-done
