#!/bin/sh
# Offline build of the whole framework from files on disk (MANIFEST.setup_cmd).
cd "$(dirname "$0")"
export CARGO_NET_OFFLINE=true
python3 tools/setup_build.py
echo setup-done
