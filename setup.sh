#!/bin/sh
# Offline build of the whole framework from files on disk (MANIFEST.setup_cmd).
set -e
cd "$(dirname "$0")"
export CARGO_NET_OFFLINE=true
[ -f harness/Cargo.lock ] || cp /repo/Cargo.lock harness/Cargo.lock
(cd lean && lake build 2>&1 | tail -5)
(cd harness && cargo build --release --offline --workspace 2>&1 | tail -5)
echo setup-done
