#!/bin/sh
# Offline build of the whole framework from files on disk (MANIFEST.setup_cmd).
set -e
cd "$(dirname "$0")"
export CARGO_NET_OFFLINE=true
[ -f harness/Cargo.lock ] || cp /repo/Cargo.lock harness/Cargo.lock
for p in props/C*.py; do
  id=$(basename "$p" .py)
  lc=$(echo "$id" | tr 'A-Z' 'a-z')
  echo "== $id"
  (cd lean && lake build "LeptosModel.Theorems.$id" "lm_$lc" 2>&1 | tail -3)
  if grep -q '"hooks": True' "$p"; then
    (cd harness && RUSTFLAGS="--cfg leptos_verif" CARGO_TARGET_DIR="$PWD/target-verif" cargo build --release --offline -p "hx-$lc" 2>&1 | tail -3)
  else
    (cd harness && CARGO_TARGET_DIR="$PWD/target" cargo build --release --offline -p "hx-$lc" 2>&1 | tail -3)
  fi
done
echo setup-done
